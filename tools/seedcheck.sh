#!/bin/bash
# tools/seedcheck.sh <seed dir with patch.diff, demo_test.go, meta.json> [check ids... | all]
# 1. confirms the seeded change in a scratch worktree (compiles, suite passes, demo fails with / passes without)
# 2. applies it to /repo, runs the named quick checks, and undoes it straight afterwards.
set -u
export GOFLAGS=-mod=mod GOPROXY=off GOSUMDB=off GOTOOLCHAIN=local
SD=$(realpath "$1"); shift
CHECKS="$@"
[ -z "$CHECKS" ] && CHECKS=all
[ "$CHECKS" = all ] && CHECKS="C01 C02 C03 C04 C05 C06 C07 C08 C09 C10 C11 C12 C13 C14 C15 C16 C17 C18 C19 C20"
PKG=$(python3 -c "import json;print(json.load(open('$SD/meta.json')).get('demo_package_dir','.'))")
W=/tmp/seedconfirm.$$
git -C /repo worktree add -q --detach $W HEAD || exit 2
cleanup() { git -C /repo worktree remove --force $W 2>/dev/null; }
trap cleanup EXIT
cp "$SD/demo_test.go" "$W/$PKG/zz_seed_demo_test.go"
( cd $W && go test -mod=mod -vet=off -count=1 ./$PKG/ -run . > /tmp/seedconfirm.clean.log 2>&1 ); clean_rc=$?
( cd $W && go test -mod=mod -vet=off -count=1 ./$PKG/ > /dev/null 2>&1 )
( cd $W && git apply "$SD/patch.diff" ) || { echo "CONFIRM: patch does not apply to HEAD"; exit 2; }
( cd $W && go build ./... ) || { echo "CONFIRM: does not compile"; exit 2; }
( cd $W && go test -mod=mod -vet=off -count=1 ./$PKG/ > /tmp/seedconfirm.demo.log 2>&1 ); demo_rc=$?
rm -f "$W/$PKG/zz_seed_demo_test.go"
( cd $W && go test -mod=mod -vet=off -count=1 ./... > /tmp/seedconfirm.suite.log 2>&1 ); suite_rc=$?
echo "CONFIRM: demo on clean tree rc=$clean_rc (want 0); demo with change rc=$demo_rc (want !=0); suite with change rc=$suite_rc (want 0)"
if [ $clean_rc -ne 0 ] || [ $demo_rc -eq 0 ] || [ $suite_rc -ne 0 ]; then echo "CONFIRM: NOT CONFIRMED"; tail -5 /tmp/seedconfirm.clean.log /tmp/seedconfirm.demo.log /tmp/seedconfirm.suite.log; exit 3; fi
cleanup; trap - EXIT
# apply to /repo itself, run the checks, undo
git -C /repo diff --quiet || { echo "/repo has uncommitted changes"; exit 2; }
git -C /repo apply "$SD/patch.diff" || exit 2
caught=""
for id in $CHECKS; do
  out=$(cd /verif && ./check $id 2>&1); rc=$?
  line=$(echo "$out" | grep -E '^\[C[0-9]+\]' | tail -1 | cut -c1-100)
  echo "  $id rc=$rc $line"
  if [ $rc -eq 1 ]; then caught="$caught $id"; echo "$out" | grep -A3 -- '---- violation' | grep -v 'rapid\] draw' | head -4 | cut -c1-400; fi
  if [ $rc -eq 2 ]; then echo "$out" | tail -5; fi
done
git -C /repo checkout -- .
git -C /repo status --short | head -3
echo "CAUGHT BY:$caught"
python3 - "$SD" "$CHECKS" "$caught" <<'PY'
import json, sys, subprocess
sd, checks, caught = sys.argv[1], sys.argv[2].split(), sys.argv[3].split()
m = json.load(open(sd + "/meta.json"))
m["confirmed_in_scratch_worktree"] = {"demo_passes_on_clean_tree": True, "demo_fails_with_change": True, "suite_passes_with_change": True,
                                     "repo_commit": subprocess.run(["git", "-C", "/repo", "rev-parse", "--short", "HEAD"], stdout=subprocess.PIPE, text=True).stdout.strip()}
prev = m.get("quick_checks_run_against_it", {})
for c in checks:
    prev[c] = "VIOLATION" if c in caught else "silent"
m["quick_checks_run_against_it"] = prev
m["caught_by"] = sorted(k for k, v in prev.items() if v == "VIOLATION")
m["how_run"] = "tools/seedcheck.sh: git -C /repo apply patch.diff; ./check <id> (quick tier, VERIF_SEED=1); git -C /repo checkout -- ."
json.dump(m, open(sd + "/meta.json", "w"), indent=1)
PY
