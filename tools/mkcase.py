#!/usr/bin/env python3
"""mkcase.py <dir> <name> <property> <python-literal dict>  — bytes values are base64-encoded ([]byte fields)."""
import sys, json, base64, ast, os
def conv(x):
    if isinstance(x, bytes): return base64.b64encode(x).decode()
    if isinstance(x, dict): return {k: conv(v) for k, v in x.items()}
    if isinstance(x, (list, tuple)): return [conv(v) for v in x]
    return x
d, name, prop, lit = sys.argv[1:5]
msg = sys.argv[5] if len(sys.argv) > 5 else ""
os.makedirs(d, exist_ok=True)
json.dump({"property": prop, "case": conv(ast.literal_eval(lit)), "message": msg, "source": "regression"}, open(os.path.join(d, name + ".json"), "w"), indent=1)
