#!/bin/bash
# tools/mutant.sh "<sed -i expression or 'patch:<file>'>" <file-to-edit> <check ids...>
# Applies a mutation to a scratch worktree of /repo's HEAD (/tmp/mut) and runs the named quick checks against it.
set -u
MUT=/tmp/mut
expr="$1"; file="$2"; shift 2
git -C $MUT checkout -q -- . && git -C $MUT checkout -q --detach $(git -C /repo rev-parse HEAD) 2>/dev/null
if [[ "$expr" == patch:* ]]; then (cd $MUT && git apply "${expr#patch:}") || { echo "patch failed"; exit 2; }
else sed -i "$expr" $MUT/$file || exit 2; fi
(cd $MUT && git diff --stat | tail -1)
(cd $MUT && go build ./... ) || { echo "MUTANT DOES NOT COMPILE"; exit 2; }
for id in "$@"; do
  out=$(VERIF_REPO=$MUT /verif/check $id 2>&1); rc=$?
  echo "== $id rc=$rc $(echo "$out" | grep -E '^\[C[0-9]+\]' | tail -1)"
  echo "$out" | grep -A2 -- "---- violation" | head -4 | cut -c1-300
done
git -C $MUT checkout -q -- .
