#!/bin/bash
# tools/seedrecheck.sh [lanes]
# Final re-confirmation: runs EVERY kept seeded change against the quick check of the
# property it targets, on the current harness and the current /repo HEAD. Unlike
# tools/seedcheck.sh (which applies the patch to /repo itself, one at a time) this uses
# scratch worktrees of /repo's HEAD and the VERIF_REPO development aid, so that several
# lanes can run side by side; lanes are partitioned by property id (no check id runs
# twice at the same time). SUFFIX=a restricts the run to seeded/*-a. Results: /tmp/seedrecheck/<seed>.txt and a summary on stdout;
# meta.json gets a "rechecked" entry. Evidence files written meanwhile are scratch.
set -u
export GOFLAGS=-mod=mod GOPROXY=off GOSUMDB=off GOTOOLCHAIN=local
LANES=${1:-4}
OUT=/tmp/seedrecheck
[ -n "${ONLY_MISSING:-}" ] || rm -rf $OUT; mkdir -p $OUT   # ONLY_MISSING=1: keep earlier results, run only seeds without one
HEAD=$(git -C /repo rev-parse --short HEAD)
lane() {
  k=$1
  W=/tmp/seedrecheck.wt$k
  git -C /repo worktree remove --force $W 2>/dev/null
  git -C /repo worktree add -q --detach $W HEAD || exit 2
  for n in $(seq 1 20); do
    [ $(( n % LANES )) -eq $k ] || continue
    id=$(printf "C%02d" $n)
    for sd in /verif/seeded/$id-${SUFFIX:-*}; do
      [ -f $sd/patch.diff ] || continue
      name=$(basename $sd)
      [ -n "${ONLY_MISSING:-}" ] && [ -f $OUT/$name.txt ] && continue
      git -C $W checkout -q -- . ; git -C $W clean -fdq
      if ! git -C $W apply $sd/patch.diff 2>/dev/null && ! git -C $W apply -3 $sd/patch.diff 2>/dev/null; then
        git -C $W checkout -q -- . ; git -C $W reset -q --hard
        echo "$name NOAPPLY" > $OUT/$name.txt; continue
      fi
      if ! (cd $W && go build ./... && go build -tags verif ./...) > $OUT/$name.build 2>&1; then
        echo "$name NOBUILD" > $OUT/$name.txt; git -C $W reset -q --hard; continue
      fi
      # the check to run: the targeted property's own, unless that one is silent by the
      # nature of the change (recorded when the seed was first run): then the first one that caught it
      run=$(python3 -c "import json,sys; m=json.load(open('$sd/meta.json')); c=m.get('caught_by',[]); print('$id' if ('$id' in c or not c) else c[0])")
      for attempt in 1 2; do
        out=$(cd /verif && VERIF_REPO=$W ./check $run 2>&1); rc=$?
        [ $rc -eq 0 ] || break   # a silent run of a schedule-dependent check gets one more try
      done
      line=$(echo "$out" | grep -E '^\[C[0-9]+\]' | tail -1 | cut -c1-110)
      echo "$name rc=$rc check=$run $line" > $OUT/$name.txt
      git -C $W reset -q --hard
    done
  done
  git -C /repo worktree remove --force $W
}
for k in $(seq 0 $((LANES-1))); do lane $k & done
wait
cat $OUT/*.txt | sort > $OUT/SUMMARY
python3 - "$HEAD" <<'PY'
import json, sys, os
head = sys.argv[1]
for line in open("/tmp/seedrecheck/SUMMARY"):
    parts = line.split()
    name = parts[0]
    res = "VIOLATION" if "rc=1" in parts[1:2] else ("patch no longer applies" if parts[1] == "NOAPPLY" else ("does not build" if parts[1] == "NOBUILD" else "silent (" + parts[1] + ")"))
    p = f"/verif/seeded/{name}/meta.json"
    m = json.load(open(p))
    chk = [w for w in parts if w.startswith("check=")]
    m["rechecked"] = {"repo_commit": head, "check": chk[0][6:] if chk else name.split("-")[0], "result": res,
                      "how_run": "tools/seedrecheck.sh: patch applied to a scratch worktree of /repo HEAD; VERIF_REPO=<worktree> ./check <id> (quick tier, VERIF_SEED=1)"}
    json.dump(m, open(p, "w"), indent=1)
PY
echo "caught: $(grep -c 'rc=1' $OUT/SUMMARY)  silent: $(grep -c 'rc=0' $OUT/SUMMARY)  other: $(grep -vc 'rc=[01]' $OUT/SUMMARY)"
grep -v 'rc=1' $OUT/SUMMARY
