#!/bin/bash
# tools/coverage.sh [checks-per-property]  — development aid, not a registered check.
# Builds the harness with statement coverage of the LIBRARY packages, runs the
# deterministic part, the corpus and N rapid cases of every property, merges the
# profiles and prints per-file coverage plus the uncovered library functions.
# Output: /tmp/verif-cov/{merged.out,func.txt,uncovered.txt}
set -u
export GOFLAGS=-mod=mod GOPROXY=off GOSUMDB=off GOTOOLCHAIN=local
N=${1:-3000}
OUT=/tmp/verif-cov; rm -rf $OUT; mkdir -p $OUT
cd /verif/harness
go test -c -tags verif -cover -covermode=set -coverpkg=github.com/elastic/go-structform/... -o $OUT/cov.test ./props || exit 2
run() { # id tag args...
  id=$1; tag=$2; shift 2
  ( cd $OUT && VERIF_PROP=$id VERIF_TIER=quick VERIF_SEED=1 VERIF_FAILCASE= VERIF_CURCASE=$OUT/cur.$id.$tag.json VERIF_STATS=$OUT/stats.$id.$tag.json \
      VERIF_EXCLUDE=ubjson.zero_payload_amplification VERIF_HANG_S=120 GOMAXPROCS=4 \
      ./cov.test -test.coverprofile=$OUT/p.$id.$tag.out "$@" > $OUT/log.$id.$tag.txt 2>&1 ) || echo "  ($id $tag rc=$?)"
}
for id in C01 C02 C03 C04 C05 C06 C07 C08 C09 C10 C11 C12 C13 C14 C15 C16 C17 C18 C19 C20; do
  ( run $id enum -test.run '^TestEnum$' -test.timeout 0
    ls /verif/corpus/$id/*.json > $OUT/list.$id 2>/dev/null
    [ -s $OUT/list.$id ] && VERIF_REPLAY_LIST=$OUT/list.$id VERIF_REPLAY_OUT=$OUT/replay.$id.out run $id corpus -test.run '^TestReplay$' -test.timeout 0
    n=$N; [ $id = C19 ] && n=$((N/10))
    run $id rapid -test.run '^TestRapid$' -test.timeout 0 -rapid.checks=$n -rapid.seed=7 -rapid.nofailfile ) &
  while [ $(jobs -r | wc -l) -ge 10 ]; do sleep 0.5; done
done
wait
cd $OUT
# merge (mode: set): a block is covered if any profile covers it
python3 - <<'PY'
import glob, collections
cov = collections.OrderedDict()
for f in sorted(glob.glob('/tmp/verif-cov/p.*.out')):
    for line in open(f):
        if line.startswith('mode:'): continue
        k, n, c = line.rsplit(' ', 2)
        cov[(k, n)] = max(cov.get((k, n), 0), int(c))
with open('/tmp/verif-cov/merged.out', 'w') as o:
    o.write('mode: set\n')
    for (k, n), c in cov.items():
        o.write(f'{k} {n} {c}\n')
PY
cd /repo && go tool cover -func=$OUT/merged.out > $OUT/func.txt 2>/dev/null
grep -v "100.0%" $OUT/func.txt | grep -v "_test.go" | awk '$NF+0 < 100.0' > $OUT/uncovered.txt
tail -1 $OUT/func.txt
