#!/usr/bin/env python3
"""mutants.py <n> <seed> [pkg...] — development aid (sensitivity measurement), not a registered check.

Draws n single-token mutants of the library's non-test sources (operator and
constant swaps on one line), keeps those that still compile AND still pass the
existing test suite, and runs the quick checks of the properties anchored in
that package against each (VERIF_REPO=<scratch worktree>, stops at the first
check that reports a violation). Survivors are listed in /tmp/mutants/survivors.txt
for manual triage (equivalent mutant, out of every property's scope, or a gap).
Runs W workers in parallel, each with its own scratch worktree under /tmp/mutants/.
"""
import os, re, sys, random, subprocess, json, time, concurrent.futures as cf
ENV = dict(os.environ, GOFLAGS="-mod=mod", GOPROXY="off", GOSUMDB="off", GOTOOLCHAIN="local")
N, SEED = int(sys.argv[1]), int(sys.argv[2])
PKGS = sys.argv[3:] or ["json", "ubjson", "cborl", "gotype", "."]
W = int(os.environ.get("MUT_WORKERS", "3"))
OUT = "/tmp/mutants"
CHECKS = {
    "json": ["C04", "C01", "C02", "C07", "C08", "C03", "C18", "C17", "C16", "C10", "C15", "C09", "C11"],
    "ubjson": ["C06", "C01", "C02", "C07", "C08", "C03", "C18", "C17", "C16", "C10", "C15", "C09", "C11"],
    "cborl": ["C05", "C01", "C02", "C07", "C08", "C03", "C18", "C17", "C16", "C10", "C15", "C09", "C11"],
    "gotype": ["C11", "C13", "C12", "C09", "C14", "C17", "C10", "C16", "C20", "C15", "C19"],
    ".": ["C10", "C16", "C01", "C09", "C13"],
    "visitors": ["C12", "C16", "C09"],
    "internal/unsafe": ["C15", "C11", "C13"],
}
SWAPS = [(r" < ", " <= "), (r" <= ", " < "), (r" > ", " >= "), (r" >= ", " > "), (r" == ", " != "), (r" != ", " == "),
         (r" && ", " || "), (r" \|\| ", " && "), (r"\+ 1\b", "+ 2"), (r"- 1\b", "- 0"), (r"\btrue\b", "false"), (r"\bfalse\b", "true"),
         (r"\+\+$", "--"), (r"\[1:\]", "[2:]"), (r"\[:0\]", "[:1]"), (r"\b0x7f\b", "0x7e"), (r"\b0xff\b", "0xfe"), (r" \+= ", " -= "),
         (r"\breturn err$", "return nil"), (r"\bbreak$", "continue"), (r"len\((\w+)\) == 0", r"len(\1) == 1"), (r" >> ", " << "), (r" & ", " | ")]

def sh(cmd, cwd=None, timeout=900):
    try:
        p = subprocess.run(cmd, cwd=cwd, env=ENV, stdout=subprocess.PIPE, stderr=subprocess.STDOUT, text=True, timeout=timeout, shell=isinstance(cmd, str))
        return p.returncode, p.stdout
    except subprocess.TimeoutExpired:
        return 124, "timeout"

def candidates():
    out = []
    for pkg in PKGS:
        d = os.path.join("/repo", pkg)
        for f in sorted(os.listdir(d)):
            if not f.endswith(".go") or f.endswith("_test.go") or f.startswith("verif_") or f.endswith("_string.go"):
                continue
            path = os.path.join(pkg, f)
            incomment = False
            for ln, line in enumerate(open(os.path.join("/repo", path)), 1):
                s = line.rstrip("\n")
                if "/*" in s:
                    incomment = True
                if incomment:
                    if "*/" in s:
                        incomment = False
                    continue
                if s.strip().startswith("//") or "errors.New" in s or "fmt.Errorf" in s or "panic(" in s:
                    continue
                for i, (pat, rep) in enumerate(SWAPS):
                    for m in re.finditer(pat, s):
                        out.append((pkg, path, ln, i, m.start()))
    return out

def work(job):
    idx, (pkg, path, ln, si, pos), wid = job
    wt = f"{OUT}/wt{wid}"
    sh(["git", "-C", wt, "checkout", "-q", "--", "."])
    full = os.path.join(wt, path)
    lines = open(full).read().split("\n")
    pat, rep = SWAPS[si]
    old = lines[ln - 1]
    m = re.compile(pat).search(old, pos)
    if not m or m.start() != pos:
        return None
    new = old[:m.start()] + m.expand(rep) + old[m.end():]
    lines[ln - 1] = new
    open(full, "w").write("\n".join(lines))
    desc = f"{path}:{ln}: {old.strip()[:90]}  =>  {new.strip()[:90]}"
    rc, o = sh(["go", "build", "./..."], cwd=wt)
    if rc != 0:
        return ("nocompile", desc, "")
    rc, o = sh(["go", "vet", "-tags", "verif", "./" + pkg], cwd=wt)
    rc, o = sh(["go", "test", "-mod=mod", "-vet=off", "-count=1", "./..."], cwd=wt, timeout=600)
    if rc != 0:
        return ("killed_by_suite", desc, "")
    for c in CHECKS.get(pkg, CHECKS["."]):
        e = dict(ENV, VERIF_REPO=wt)
        try:
            p = subprocess.run([os.path.join(os.path.dirname(os.path.dirname(os.path.abspath(__file__))), "check"), c], env=e, stdout=subprocess.PIPE, stderr=subprocess.STDOUT, text=True, timeout=1500)
        except subprocess.TimeoutExpired:
            continue
        if p.returncode == 1:
            return ("caught", desc, c)
    return ("SURVIVED", desc, "")

def main():
    os.makedirs(OUT, exist_ok=True)
    head = subprocess.run(["git", "-C", "/repo", "rev-parse", "HEAD"], stdout=subprocess.PIPE, text=True).stdout.strip()
    for w in range(W):
        wt = f"{OUT}/wt{w}"
        if not os.path.isdir(wt):
            subprocess.run(["git", "-C", "/repo", "worktree", "add", "-q", "--detach", wt, head])
        else:
            sh(["git", "-C", wt, "checkout", "-q", "--", "."]); sh(["git", "-C", wt, "checkout", "-q", "--detach", head])
    cands = candidates()
    random.Random(SEED).shuffle(cands)
    cands = cands[:N]
    print(f"{len(cands)} mutants drawn", flush=True)
    stats = {}
    log = open(f"{OUT}/log.{SEED}.txt", "a")
    import queue, threading
    q = queue.Queue()
    for i, c in enumerate(cands):
        q.put((i, c))
    lock = threading.Lock()
    def runner(wid):
        while True:
            try:
                i, c = q.get_nowait()
            except queue.Empty:
                return
            r = work((i, c, wid))
            if r is None:
                continue
            with lock:
                stats[r[0]] = stats.get(r[0], 0) + 1
                line = f"{r[0]:16s} {r[2]:4s} {r[1]}"
                print(line, flush=True); log.write(line + "\n"); log.flush()
                if r[0] == "SURVIVED":
                    open(f"{OUT}/survivors.txt", "a").write(r[1] + "\n")
    ts = [threading.Thread(target=runner, args=(w,)) for w in range(W)]
    for t in ts: t.start()
    for t in ts: t.join()
    print(json.dumps(stats))
    for w in range(W):
        sh(["git", "-C", f"{OUT}/wt{w}", "checkout", "-q", "--", "."])

main()
