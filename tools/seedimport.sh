#!/bin/bash
# tools/seedimport.sh <round> <suffix> <id> [checks...]
# copies /tmp/seed<round>_<id>/{patch.diff,demo_test.go,meta.json} to seeded/<id>-<suffix>/ and runs tools/seedcheck.sh on it
R=$1; SUF=$2; ID=$3; shift 3
SRC=/tmp/seed${R}_$ID; DST=/verif/seeded/$ID-$SUF
[ -f $SRC/patch.diff ] && [ -f $SRC/demo_test.go ] && [ -f $SRC/meta.json ] || { echo "$ID: deliverables missing"; exit 2; }
mkdir -p $DST && cp $SRC/patch.diff $SRC/demo_test.go $SRC/meta.json $DST/
/verif/tools/seedcheck.sh $DST ${@:-$ID}
rc=$?
git -C /repo worktree remove --force /tmp/wt${R}_$ID 2>/dev/null
exit $rc
