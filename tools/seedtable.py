#!/usr/bin/env python3
"""seedtable.py — prints the markdown table of DESIGN.md §12.1 from seeded/*/meta.json."""
import json, glob, os, re, sys, io
root = os.path.join(os.path.dirname(os.path.abspath(__file__)), "..", "seeded")
def clip(s, n):
    s = re.sub(r"\s+", " ", s).replace("|", "/")
    return s if len(s) <= n else s[:n].rstrip() + "…"
out = io.StringIO()
_print = print
def print(*a): _print(*a, file=out)
print("| seed | targets | change | needs | caught by (quick tier) | run, silent | final re-check |")
print("|---|---|---|---|---|---|---|")
for d in sorted(glob.glob(os.path.join(root, "C*"))):
    m = json.load(open(os.path.join(d, "meta.json")))
    runs = m.get("quick_checks_run_against_it", {})
    caught = sorted(k for k, v in runs.items() if v == "VIOLATION")
    silent = sorted(k for k, v in runs.items() if v != "VIOLATION")
    rc = m.get("rechecked")
    if not rc:
        final = "—"
    elif rc["result"] == "VIOLATION":
        final = f"caught by {rc['check']} at {rc['repo_commit']}" + (" (see note below the table)" if rc.get("note") else "")
    else:
        final = f"{rc['result']} at {rc['repo_commit']}; last run at {m.get('confirmed_in_scratch_worktree', {}).get('repo_commit', '?')}"
    print(f"| {os.path.basename(d)} | {m['property']} | {clip(m['summary'], 230)} | {clip(m['needs_to_manifest'], 200)} | {', '.join(caught) or '—'} | {', '.join(silent) or '—'} | {final} |")

if "--update-design" in sys.argv:
    p = os.path.join(root, "..", "DESIGN.md")
    t = open(p).read()
    b, e = t.index("<!-- seedtable:begin"), t.index("<!-- seedtable:end -->")
    b = t.index("\n", b) + 1
    open(p, "w").write(t[:b] + out.getvalue() + t[e:])
else:
    sys.stdout.write(out.getvalue())
