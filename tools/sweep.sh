#!/bin/bash
# tools/sweep.sh <tier> <seeds...> — runs every check at several seeds, prints one line per run, lists alarms at the end.
tier=$1; shift
fail=0
for s in "$@"; do
  for p in C01 C02 C03 C04 C05 C06 C07 C08 C09 C10 C11 C12 C13 C14 C15 C16 C17 C18 C19 C20; do
    t0=$(date +%s)
    out=$(VERIF_SEED=$s ./check $p --tier $tier 2>&1); rc=$?
    echo "seed=$s $p rc=$rc $(( $(date +%s)-t0 ))s $(echo "$out" | grep -E '^\[C[0-9]+\]' | tail -1 | cut -c1-110)"
    if [ $rc -ne 0 ]; then fail=1; echo "$out" | grep -v 'rapid\] draw' | head -30 | cut -c1-600; fi
  done
done
echo "SWEEP DONE fail=$fail"
