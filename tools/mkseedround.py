#!/usr/bin/env python3
"""tools/mkseedround.py <round number> [ids...]
Prepares one round of independently seeded changes: for every property a scratch
worktree /tmp/wt<R>_<id> of /repo's HEAD and a directory /tmp/seed<R>_<id> holding
PROPERTY.txt and INSTRUCTIONS.txt. The instructions contain ONLY the property text,
the environment rules and one-line summaries of the changes earlier agents seeded
for the same property (so that the new one is different) - nothing from /verif."""
import json, os, re, subprocess, sys

TEMPLATE = """You are helping to evaluate a verification effort by playing the role of a maintainer who introduces a subtle regression.

Environment: an offline Linux sandbox (no network). Your working copy is a git worktree of the Go library elastic/go-structform at WORKTREE (Go 1.23). In every shell call first run:
  export GOFLAGS=-mod=mod GOPROXY=off GOSUMDB=off GOTOOLCHAIN=local
The existing test suite is run with:  cd WORKTREE && go test -mod=mod -vet=off -count=1 ./...
IMPORTANT RULES: work ONLY inside WORKTREE and OUTDIR. Do NOT read, list or use anything under /verif or /repo (they are off limits), do not commit anything, do not touch other /tmp directories.

The library is supposed to satisfy this semantic property (also in OUTDIR/PROPERTY.txt):

PROPERTY_TEXT

YOUR TASK: devise ONE realistic change to the library's non-test source files (the kind of refactoring, optimisation, clean-up or "bug fix" a maintainer could plausibly make) that BREAKS this property, such that
  (a) everything still compiles (go build ./... and go vet-free test build), and
  (b) the existing test suite above still passes completely with your change.
The breakage must need something SPECIFIC to manifest - a particular interleaving, a fault at a particular point, a multi-step sequence of operations, an unusual input (a boundary value, a particular length, a rare combination of options/tags/types), or two cooperating sites that each look fine alone. It must NOT be something ordinary use would expose at once (e.g. do not break all strings or all integers). Prefer changes of 1-15 lines. Read the relevant source first so that the change is in code the property depends on.

NOTE_BLOCK
IMPORTANT: do NOT use `git stash` (worktrees share the stash). To test on the clean tree: `git -C WORKTREE diff > OUTDIR/patch.diff`, then `git -C WORKTREE apply -R OUTDIR/patch.diff`, run the demo (must pass), then `git -C WORKTREE apply OUTDIR/patch.diff` again.

DELIVERABLES (all under OUTDIR):
  1. OUTDIR/patch.diff  - `git -C WORKTREE diff` of your change to non-test library files only (must apply with `git apply` to a clean checkout of the same commit).
  2. OUTDIR/demo_test.go (plus a line in meta.json saying into which package directory it must be copied, e.g. "ubjson") - a Go test (package-internal or external, using only the standard library and the library itself; testify is available too) that FAILS with your change applied and PASSES on the clean tree. Verify BOTH yourself. The demo test file must NOT be part of patch.diff. After you are done, leave the worktree with your change applied but remove the demo test file from the worktree.
  3. OUTDIR/meta.json - {"property": "ID", "summary": "<what the change does>", "needs_to_manifest": "<the specific input / sequence / schedule / fault needed>", "demo_package_dir": "<dir>", "demo_run_cmd": "<go test command to run the demo>", "verified": {"suite_passes_with_change": true/false, "demo_fails_with_change": true/false, "demo_passes_without_change": true/false}}
If, while reading the code, you notice that the UNCHANGED library already violates the property for some input, say so in your report (with the input) - but your deliverable must still be a change of your own.

Finish with a short report: the change, why the existing tests do not notice it, what is needed to trigger it, and the verification results you observed.
"""


def main():
    R = int(sys.argv[1])
    only = sys.argv[2:]
    head = subprocess.run(["git", "-C", "/repo", "rev-parse", "HEAD"], stdout=subprocess.PIPE, text=True).stdout.strip()
    for l in open("/verif/properties.jsonl"):
        d = json.loads(l)
        pid = d["id"]
        if only and pid not in only:
            continue
        text = d.get("statement") or d.get("text") or d.get("description")
        wt, sd = f"/tmp/wt{R}_{pid}", f"/tmp/seed{R}_{pid}"
        subprocess.run(["git", "-C", "/repo", "worktree", "remove", "--force", wt], stderr=subprocess.DEVNULL)
        subprocess.run(["git", "-C", "/repo", "worktree", "add", "-q", "--detach", wt, head], check=True)
        os.makedirs(sd, exist_ok=True)
        prev = []
        for suffix in "abcdefghijklmnopqrstuvwxyz":
            m = f"/verif/seeded/{pid}-{suffix}/meta.json"
            if os.path.exists(m):
                prev.append(re.sub(r"\s+", " ", json.load(open(m))["summary"])[:160])
        note = ""
        if prev:
            note = ("NOTE: other engineers already seeded these regressions for the same property:\n"
                    + "\n".join(f'  {i+1}. "{p}..."' for i, p in enumerate(prev))
                    + "\nYours must use a clearly DIFFERENT place and mechanism from all of them; look for a part of the code this property depends on that none of them touched (another package, another entry point, another option, another type category, another kind of state). Make sure the existing test suite REALLY passes with your change (run it three times: some tests run in parallel).\n")
        t = (TEMPLATE.replace("NOTE_BLOCK", note).replace("WORKTREE", wt).replace("OUTDIR", sd)
             .replace("PROPERTY_TEXT", text).replace('"property": "ID"', f'"property": "{pid}"'))
        open(sd + "/INSTRUCTIONS.txt", "w").write(t)
        open(sd + "/PROPERTY.txt", "w").write(text + "\n")
        print(pid, wt, sd, len(t))


if __name__ == "__main__":
    main()
