#!/usr/bin/env python3
"""uncovered.py <file-suffix> — prints the source lines of uncovered blocks from /tmp/verif-cov/merged.out."""
import sys, re
suffix = sys.argv[1]
blocks = []
for line in open('/tmp/verif-cov/merged.out'):
    if line.startswith('mode:'): continue
    m = re.match(r'(.*):(\d+)\.(\d+),(\d+)\.(\d+) (\d+) (\d+)', line)
    f, l1, c1, l2, c2, n, cnt = m.groups()
    if f.endswith('go-structform/' + suffix) and cnt == '0':
        blocks.append((int(l1), int(l2)))
src = open('/repo/' + suffix).read().split('\n')
blocks.sort()
last = 0
for l1, l2 in blocks:
    if l1 <= last: continue
    for i in range(l1, min(l2, l1 + 6, len(src)) + 1):
        print(f'{i:5d}  {src[i-1]}')
    print('       ...' if l2 > l1 + 6 else '       --')
    last = l2
