"""Driver: build, shard, watchdog handling, stats merge, evidence, exit code.

python3 standard library only. See DESIGN.md §2.
"""
import argparse, glob, json, os, shutil, signal, struct, subprocess, sys, time

ROOT = os.path.dirname(os.path.dirname(os.path.abspath(__file__)))
HARNESS = os.path.join(ROOT, "harness")
REPO = os.environ.get("VERIF_REPO", "/repo")
NCPU = os.cpu_count() or 4

GOENV = {
    "GOFLAGS": "-mod=mod",
    "GOPROXY": "off",
    "GOSUMDB": "off",
    "GOTOOLCHAIN": "local",
    "GONOSUMDB": "*",
    "GONOSUMCHECK": "1",
}

# Per-property configuration. checks = rapid cases per shard.
DEFAULT = dict(level="exploration", quick_shards=8, quick_checks=4000, thorough_shards=16,
               thorough_checks=60000, thorough_rounds=40, race=False, race_thorough=False,
               enum=False, fuzz=[], hang_s=10, quick_enum=True)
PROPS = {
    "C01": dict(quick_checks=8000, enum=True),
    "C02": dict(quick_checks=2500, thorough_checks=20000, enum=True),
    "C03": dict(quick_checks=12000, thorough_checks=100000, enum=True, fuzz=["FuzzC03JSON", "FuzzC03CBOR", "FuzzC03UBJSON"]),
    "C04": dict(quick_checks=8000, enum=True),
    "C05": dict(quick_checks=8000, enum=True, fuzz=["FuzzC05"]),
    "C06": dict(quick_checks=8000, enum=True, fuzz=["FuzzC06"]),
    "C07": dict(quick_checks=8000, enum=True),
    "C08": dict(quick_checks=2500, thorough_checks=20000),
    "C09": dict(quick_checks=4000, thorough_checks=30000, enum=True),
    "C10": dict(quick_checks=4000, enum=True),
    "C11": dict(quick_checks=4000, thorough_checks=15000),
    "C12": dict(quick_checks=2500, thorough_checks=15000, enum=True),
    "C13": dict(quick_checks=3000, thorough_checks=20000, enum=True),
    "C14": dict(quick_checks=3000, thorough_checks=20000, race_thorough=True, enum=True),
    "C15": dict(quick_checks=2500, thorough_checks=15000, race_thorough=True),
    "C16": dict(level="fault_enumeration", quick_checks=1500, thorough_checks=10000, enum=True),
    "C17": dict(quick_checks=2500, thorough_checks=12000, enum=True),
    "C18": dict(quick_checks=3000, thorough_checks=20000, enum=True),
    "C19": dict(quick_checks=300, quick_shards=4, thorough_checks=3000, thorough_shards=8, thorough_rounds=10, race=True, hang_s=60, enum=True),
    "C20": dict(quick_checks=2500, thorough_checks=15000),
}

ASSUMPTIONS = [
    "Go 1.23.5 toolchain/runtime, encoding/json, strconv, unicode/utf8, reflect, math/big are correct",
    "pgregory.net/rapid v1.3.0 generates and shrinks as documented",
    "the harness' reference codecs and models (validated by selftest against RFC vectors, generator<->decoder agreement and the suite's samples) are correct",
    "absence of violations is claimed only for the cases explored (counts in coverage)",
]


def cfg(pid):
    c = dict(DEFAULT)
    c.update(PROPS.get(pid, {}))
    return c


def log(*a):
    print(*a, flush=True)


def goenv(extra=None):
    e = dict(os.environ)
    e.update(GOENV)
    if extra:
        e.update(extra)
    return e


class Infra(Exception):
    pass


def build(work, race=False):
    out = os.path.join(work, "props.race.test" if race else "props.test")
    cmd = ["go", "test", "-c", "-tags", "verif", "-o", out]
    if os.path.realpath(REPO) != "/repo":
        # development aid (sensitivity experiments against a scratch worktree):
        # registered commands never set VERIF_REPO
        alt = os.path.join(work, "alt.mod")
        mod = open(os.path.join(HARNESS, "go.mod")).read().replace("=> /repo", "=> " + os.path.realpath(REPO))
        open(alt, "w").write(mod)
        shutil.copy(os.path.join(HARNESS, "go.sum"), os.path.join(work, "alt.sum"))
        cmd.append("-modfile=" + alt)
    if race:
        cmd.append("-race")
    cmd.append("./props")
    t0 = time.time()
    p = subprocess.run(cmd, cwd=HARNESS, env=goenv(), stdout=subprocess.PIPE, stderr=subprocess.STDOUT, text=True)
    if p.returncode != 0:
        raise Infra("build failed (the tree does not compile with the harness):\n" + p.stdout[-4000:])
    log(f"[build] {'race ' if race else ''}test binary in {time.time()-t0:.1f}s")
    return out


# ---------------------------------------------------------------- known findings

def parse_known_findings():
    path = os.path.join(ROOT, "KNOWN_FINDINGS.txt")
    opens, fixed = [], []
    if not os.path.exists(path):
        return opens, fixed
    for line in open(path):
        line = line.strip()
        if not line or line.startswith("#"):
            continue
        kind, _, rest = line.partition(":")
        kind = kind.strip()
        fields = {}
        words = rest.strip().split(" ")
        desc = []
        for w in words:
            if "=" in w and not desc and w.split("=", 1)[0] in ("property", "finding", "replay", "excludes"):
                k, v = w.split("=", 1)
                fields[k] = v
            else:
                desc.append(w)
        fields["desc"] = " ".join(desc).strip()
        if kind == "open":
            opens.append(fields)
        elif kind == "fixed":
            fixed.append(fields)
    return opens, fixed


# ---------------------------------------------------------------- running the test binary

def run_bin(binary, args, env, timeout, logf):
    with open(logf, "w") as lf:
        try:
            p = subprocess.Popen([binary] + args, cwd=os.path.dirname(binary), env=env, stdout=lf, stderr=subprocess.STDOUT,
                                 preexec_fn=os.setsid)
        except OSError as e:
            raise Infra(f"cannot start test binary: {e}")
        try:
            rc = p.wait(timeout=timeout)
        except subprocess.TimeoutExpired:
            try:
                os.killpg(p.pid, signal.SIGKILL)
            except ProcessLookupError:
                pass
            p.wait()
            rc = "timeout"
    return rc


def tail(path, n=40):
    try:
        return "".join(open(path, errors="replace").readlines()[-n:])
    except OSError:
        return ""


def crash_head(path):
    """First lines of a Go crash report (fatal error / panic / race header)."""
    out = []
    try:
        lines = open(path, errors="replace").readlines()
    except OSError:
        return ""
    for i, l in enumerate(lines):
        if l.startswith(("fatal error:", "panic:", "WARNING: DATA RACE", "runtime: goroutine stack exceeds", "WATCHDOG")):
            out += lines[i:i + 14]
            break
    return "".join(out)


def base_env(pid, work, tag, tier, seed, excludes, hang_s):
    return goenv({
        "VERIF_PROP": pid,
        "VERIF_TIER": tier,
        "VERIF_SEED": str(seed),
        "VERIF_FAILCASE": os.path.join(work, f"fail.{tag}.json"),
        "VERIF_CURCASE": os.path.join(work, f"cur.{tag}.json"),
        "VERIF_STATS": os.path.join(work, f"stats.{tag}.json"),
        "VERIF_EXCLUDE": ",".join(sorted(excludes)),
        "VERIF_HANG_S": str(hang_s),
        "GORACE": "halt_on_error=1 exitcode=66",
        "GOMAXPROCS": os.environ.get("VERIF_GOMAXPROCS", "4"),
    })


def replay_files(binary, pid, work, files, tier, seed, excludes, hang_s, tag):
    """Replays case files; returns list of dict(file, ok, msg). Survives crashes/hangs of single files."""
    results = []
    remaining = list(files)
    rnd = 0
    while remaining:
        rnd += 1
        lst = os.path.join(work, f"replay.{tag}.{rnd}.list")
        out = os.path.join(work, f"replay.{tag}.{rnd}.out")
        open(lst, "w").write("\n".join(remaining) + "\n")
        open(out, "w").close()
        env = base_env(pid, work, f"{tag}.{rnd}", tier, seed, excludes, hang_s)
        env["VERIF_REPLAY_LIST"] = lst
        env["VERIF_REPLAY_OUT"] = out
        env["VERIF_FAILCASE"] = ""
        logf = os.path.join(work, f"replay.{tag}.{rnd}.log")
        rc = run_bin(binary, ["-test.run", "^TestReplay$", "-test.timeout", "0"], env, hang_s * 6 + 30 * len(remaining) + 120, logf)
        done = []
        for line in open(out):
            line = line.strip()
            if line:
                done.append(json.loads(line))
        for d in done:
            if d.get("load_error"):
                raise Infra("replay file unusable: " + d["load_error"])
            results.append(dict(file=d["file"], ok=d["ok"], msg=d.get("msg", "")))
        finished = {d["file"] for d in done}
        remaining = [f for f in remaining if f not in finished]
        if rc == 0 or not remaining:
            if rc not in (0, 1) and not remaining and rc != "timeout":
                # died after the last file was reported: nothing to attribute
                pass
            continue
        # the process died or hung on remaining[0]
        culprit = remaining.pop(0)
        why = {3: "hang (watchdog)", 4: "memory limit (watchdog)", "timeout": "hang (driver timeout)", 66: "data race reported"}.get(rc, f"process died with exit status {rc}")
        results.append(dict(file=culprit, ok=False, msg=f"{why} while replaying this case\n" + crash_head(logf) + tail(logf, 12)))
    return results


# ---------------------------------------------------------------- stats

def merge_stats(stat_files):
    total = dict(evaluations=0, nontrivial_executions=0, classes={}, samples=[], failures=0, excluded={}, rule="")
    hashes = set()
    for sf in stat_files:
        if not os.path.exists(sf):
            continue
        try:
            data = json.load(open(sf))
        except (ValueError, OSError):
            continue
        for k, v in (data.get("_excluded") or {}).items():
            total["excluded"][k] = total["excluded"].get(k, 0) + v
        for pid, s in data.items():
            if pid.startswith("_"):
                continue
            total["evaluations"] += s.get("evaluations", 0)
            total["nontrivial_executions"] += s.get("nontrivial_executions", 0)
            total["failures"] += s.get("failures", 0)
            if s.get("rule"):
                total["rule"] = s["rule"]
            for c, n in (s.get("classes") or {}).items():
                total["classes"][c] = total["classes"].get(c, 0) + n
            for smp in (s.get("samples") or []):
                if len(total["samples"]) < 12:
                    total["samples"].append(smp)
            hf = s.get("hashes_file")
            if hf and os.path.exists(hf):
                raw = open(hf, "rb").read()
                n = len(raw) // 8
                hashes.update(struct.unpack("<%dQ" % n, raw[: n * 8]))
    total["distinct_nontrivial"] = len(hashes)
    return total


def save_violation(pid, casefile, msg_extra=""):
    d = os.path.join(ROOT, "replays", pid)
    os.makedirs(d, exist_ok=True)
    n = len(glob.glob(os.path.join(d, "*.json")))
    dst = os.path.join(d, f"{time.strftime('%Y%m%dT%H%M%S')}-{os.getpid()}-{n}.json")
    try:
        data = json.load(open(casefile))
    except (ValueError, OSError):
        data = {"property": pid, "case": None}
    if msg_extra and not data.get("message"):
        data["message"] = msg_extra
    json.dump(data, open(dst, "w"), indent=1)
    return dst, data.get("message", "")


# ---------------------------------------------------------------- main check

def run_check(pid, tier, seed, budget_s):
    c = cfg(pid)
    t0 = time.time()
    work = os.path.join(ROOT, ".work", f"{pid}.{os.getpid()}")
    shutil.rmtree(work, ignore_errors=True)
    os.makedirs(work)
    violations = []   # (replay path, message)
    known_lines = []
    notes = []
    stat_files = []
    try:
        use_race = c["race"] or (tier == "thorough" and c["race_thorough"])
        binary = build(work)
        race_binary = build(work, race=True) if use_race else None
        main_binary = race_binary if c["race"] else binary

        opens, fixed = parse_known_findings()
        my_open = [f for f in opens if f.get("property") == pid]
        # an exclusion switches a generator feature off for every property while the finding is open
        excludes = {f["excludes"] for f in opens if f.get("excludes")}
        hang_s = c["hang_s"]

        # 1. corpus (regression cases, incl. every fixed defect) — no suppression
        corpus = sorted(glob.glob(os.path.join(ROOT, "corpus", pid, "*.json")))
        finding_files = {os.path.join(ROOT, f["replay"]) for f in my_open if f.get("replay")}
        if corpus:
            res = replay_files(main_binary, pid, work, corpus, tier, seed, excludes, hang_s, "corpus")
            stat_files += glob.glob(os.path.join(work, "stats.corpus.*.json"))
            for r in res:
                if not r["ok"]:
                    dst, m = save_violation(pid, r["file"], r["msg"])
                    violations.append((dst, r["msg"]))
            log(f"[corpus] replayed {len(res)} regression cases, {sum(1 for r in res if not r['ok'])} failing")

        # 2. open known findings
        for f in my_open:
            path = os.path.join(ROOT, f["replay"])
            if not os.path.exists(path):
                raise Infra(f"known finding {f.get('finding')} has no replay file {path}")
            res = replay_files(main_binary, pid, work, [path], tier, seed, set(), max(hang_s, 20), "finding." + f.get("finding", "x"))
            if res and not res[0]["ok"]:
                known_lines.append(f"KNOWN-FINDING: property={pid} finding={f.get('finding')} {f['desc']}")
            else:
                notes.append(f"known finding {f.get('finding')} no longer reproduces")

        # 3. deterministic enumeration
        if c["enum"] and not violations:
            env = base_env(pid, work, "enum", tier, seed, excludes, hang_s)
            logf = os.path.join(work, "enum.log")
            eargs = ["-test.run", "^TestEnum$", "-test.timeout", "0"]
            rc = run_bin(main_binary, eargs, env, 3600, logf)
            stat_files.append(env["VERIF_STATS"])
            handle_rc(pid, rc, env, logf, main_binary, work, tier, seed, excludes, hang_s, violations, notes, "enum", eargs)

        # 4. rapid, sharded
        shards = c["quick_shards"] if tier == "quick" else c["thorough_shards"]
        checks = c["quick_checks"] if tier == "quick" else c["thorough_checks"]
        rounds = 1 if tier == "quick" else c["thorough_rounds"]
        shards = max(1, min(shards, NCPU))
        rnd = 0
        while rnd < rounds and not violations:
            if rnd > 0 and time.time() - t0 > budget_s:
                notes.append(f"wall-clock budget {budget_s}s reached after {rnd} rounds (explored less, not a verdict)")
                break
            procs = []
            for sh in range(shards):
                tag = f"r{rnd}.s{sh}"
                env = base_env(pid, work, tag, tier, seed, excludes, hang_s)
                rseed = 1 + seed * 1000003 + sh + 64 * rnd
                logf = os.path.join(work, f"rapid.{tag}.log")
                args = ["-test.run", "^TestRapid$", "-test.timeout", "0", f"-rapid.checks={checks}", f"-rapid.seed={rseed}",
                        "-rapid.nofailfile", "-rapid.shrinktime=20s"]
                lf = open(logf, "w")
                p = subprocess.Popen([main_binary] + args, cwd=work, env=env, stdout=lf, stderr=subprocess.STDOUT, preexec_fn=os.setsid)
                procs.append((p, env, logf, lf, tag, args))
            deadline = time.time() + max(budget_s * 2, 1800)
            rcs = wait_shards(procs, deadline)
            for p, env, logf, lf, tag, args in procs:
                rc = rcs[p.pid]
                lf.close()
                stat_files.append(env["VERIF_STATS"])
                handle_rc(pid, rc, env, logf, main_binary, work, tier, seed, excludes, hang_s, violations, notes, tag, args)
            rnd += 1

        # 5. race/checkptr pass of the same property (thorough only)
        if tier == "thorough" and c["race_thorough"] and not c["race"] and not violations:
            procs = []
            for sh in range(min(8, shards)):
                tag = f"race.s{sh}"
                env = base_env(pid, work, tag, tier, seed, excludes, hang_s * 3)
                rseed = 1 + seed * 1000003 + sh + 64 * 1000
                logf = os.path.join(work, f"rapid.{tag}.log")
                args = ["-test.run", "^TestRapid$", "-test.timeout", "0", f"-rapid.checks={max(200, checks // 10)}",
                        f"-rapid.seed={rseed}", "-rapid.nofailfile", "-rapid.shrinktime=20s"]
                lf = open(logf, "w")
                p = subprocess.Popen([race_binary] + args, cwd=work, env=env, stdout=lf, stderr=subprocess.STDOUT, preexec_fn=os.setsid)
                procs.append((p, env, logf, lf, tag, args))
            for p, env, logf, lf, tag, args in procs:
                rc = p.wait()
                lf.close()
                stat_files.append(env["VERIF_STATS"])
                handle_rc(pid, rc, env, logf, race_binary, work, tier, seed, excludes, hang_s * 3, violations, notes, tag, args)

        # 6. native fuzzing (thorough only)
        fuzz_execs = 0
        if tier == "thorough" and c["fuzz"] and not violations:
            per = max(30, int(os.environ.get("VERIF_FUZZ_S", "120")))
            for target in c["fuzz"]:
                fuzz_execs += native_fuzz(pid, target, per, work, tier, seed, excludes, violations, notes)
                if violations:
                    break

        st = merge_stats(stat_files)
        evidence = {
            "property_id": pid,
            "tier": tier,
            "seed": seed,
            "level": c["level"],
            "coverage": {
                "evaluations": st["evaluations"],
                "distinct_nontrivial": st["distinct_nontrivial"],
                "rule": st["rule"] or "see DESIGN.md §4 " + pid,
                "samples": st["samples"],
                "nontrivial_executions": st["nontrivial_executions"],
                "classes": dict(sorted(st["classes"].items())),
                "excluded_draws_for_open_findings": st["excluded"],
                "active_exclusions": sorted(excludes),
                "corpus_cases_replayed": len(corpus),
                "known_findings_replayed": len(my_open),
                "known_findings_reproduced": len(known_lines),
                "rapid_shards": shards,
                "rapid_rounds": rnd,
                "rapid_checks_per_shard": checks,
                "native_fuzz_execs": fuzz_execs,
                "race_build": bool(use_race),
                "exhaustive": False,
                "fault_positions_injected": st["classes"].get("fault_positions", 0),
                "notes": notes,
            },
            "assumptions": ASSUMPTIONS,
            "wall_s": round(time.time() - t0, 2),
            "violations": len(violations),
        }
        os.makedirs(os.path.join(ROOT, "evidence"), exist_ok=True)
        json.dump(evidence, open(os.path.join(ROOT, "evidence", pid + ".json"), "w"), indent=1)
        for l in known_lines:
            log(l)
        for n in notes:
            log("[note]", n)
        log(f"[{pid}] tier={tier} seed={seed} evaluations={st['evaluations']} distinct_nontrivial={st['distinct_nontrivial']} "
            f"violations={len(violations)} wall={time.time()-t0:.1f}s")
        if violations:
            for i, (dst, msg) in enumerate(violations):
                if i < 3:
                    log("---- violation ----")
                    log(msg[:1500])
                log(f"VIOLATION property={pid} replay={dst}")
            return 1
        if st["evaluations"] == 0:
            raise Infra("no case was executed")
        return 0
    finally:
        if os.environ.get("VERIF_KEEP_WORK") != "1":
            shutil.rmtree(work, ignore_errors=True)


SHRINK_GRACE_S = 60


def wait_shards(procs, deadline):
    """Waits for all workers. A worker that has already left a failing case behind gets
    SHRINK_GRACE_S more seconds for shrinking (rapid prunes its recorded draws with a
    quadratic pass BEFORE its own shrink deadline applies: a failing case with many
    discarded draws can keep it busy for a quarter of an hour); then it is stopped and
    the smallest failing case written so far is used (status "shrink-timeout")."""
    rcs, seen = {}, {}
    while len(rcs) < len(procs):
        now = time.time()
        for p, env, logf, lf, tag, args in procs:
            if p.pid in rcs:
                continue
            rc = p.poll()
            if rc is not None:
                rcs[p.pid] = rc
                continue
            fail = env.get("VERIF_FAILCASE")
            if fail and os.path.exists(fail):
                seen.setdefault(p.pid, now)
            why = None
            # once another worker has delivered a shrunk violation, 10 s are enough
            grace = 10 if any(r == 1 for r in rcs.values()) else SHRINK_GRACE_S
            if p.pid in seen and now - seen[p.pid] > grace:
                why = "shrink-timeout"
            elif now > deadline:
                why = "timeout"
            if why:
                try:
                    os.killpg(p.pid, signal.SIGKILL)
                except ProcessLookupError:
                    pass
                p.wait()
                rcs[p.pid] = why
        time.sleep(0.2)
    return rcs


def handle_rc(pid, rc, env, logf, binary, work, tier, seed, excludes, hang_s, violations, notes, tag, args=None):
    """Interprets the exit status of one worker."""
    if rc == 0:
        return
    fail = env["VERIF_FAILCASE"]
    curf = env["VERIF_CURCASE"]
    if rc == "shrink-timeout" and fail and os.path.exists(fail):
        # the case file is rewritten by every failing execution: what is there is the
        # smallest failing case seen so far; confirm it by a plain replay
        res = replay_files(binary, pid, work, [fail], tier, seed, excludes, max(60, hang_s * 3), "confirm." + tag)
        if res and not res[0]["ok"]:
            dst, msg = save_violation(pid, fail, res[0]["msg"] + f" (shrinking stopped after {SHRINK_GRACE_S}s: not minimal)")
            violations.append((dst, msg + "\n" + tail(logf, 12)))
            return
        notes.append(f"{tag}: a failing case was written but does not fail when replayed alone after shrinking was stopped — inconclusive, not a verdict")
        return
    if rc == 1 and fail and os.path.exists(fail):
        dst, msg = save_violation(pid, fail)
        violations.append((dst, msg + "\n" + tail(logf, 12)))
        return
    # watchdog exit, crash, race report, timeout: confirm in isolation
    why = {3: "hang (watchdog)", 4: "memory limit (watchdog)", "timeout": "driver timeout", 66: "data race reported by the race detector"}.get(rc, f"worker died with exit status {rc}")
    if not os.path.exists(curf):
        # re-run the same deterministic shard leaving every case behind before it runs
        notes.append(f"{tag}: {why}; no attributable case, re-running the shard with per-case breadcrumbs")
        env2 = dict(env)
        env2["VERIF_CURCASE_ALWAYS"] = "1"
        if args:
            run_bin(binary, args, env2, 3600, logf + ".rerun")
    if os.path.exists(curf):
        res = replay_files(binary, pid, work, [curf], tier, seed, excludes, max(60, hang_s * 3), "confirm." + tag)
        if res and not res[0]["ok"]:
            dst, msg = save_violation(pid, curf, f"{why}; confirmed in isolation: " + res[0]["msg"])
            violations.append((dst, f"{why}; confirmed in isolation\n{res[0]['msg']}\n" + tail(logf, 30)))
            return
        notes.append(f"{tag}: {why} could not be confirmed in isolation (machine too busy?) — inconclusive, not a verdict")
        return
    if rc == 1:
        raise Infra(f"worker {tag} failed without a failing case:\n" + tail(logf, 40))
    raise Infra(f"worker {tag}: {why}, and no case could be attributed:\n" + tail(logf, 40))


def native_fuzz(pid, target, seconds, work, tier, seed, excludes, violations, notes):
    """Runs `go test -fuzz` for a wall-clock budget. Returns the number of execs."""
    env = base_env(pid, work, "fuzz." + target, tier, seed, excludes, 10)
    env.pop("GOMAXPROCS", None)
    env.pop("VERIF_STATS", None)   # fuzz workers are separate processes: no shared stats file
    env["VERIF_CURCASE"] = ""
    logf = os.path.join(work, f"fuzz.{target}.log")
    tdir = os.path.join(HARNESS, "props", "testdata", "fuzz", target)
    cmd = ["go", "test", "-tags", "verif", "-run", "^$", "-fuzz", "^" + target + "$", "-fuzztime", f"{seconds}s", "./props"]
    with open(logf, "w") as lf:
        p = subprocess.Popen(cmd, cwd=HARNESS, env=env, stdout=lf, stderr=subprocess.STDOUT, preexec_fn=os.setsid)
        try:
            rc = p.wait(timeout=seconds + 600)
        except subprocess.TimeoutExpired:
            os.killpg(p.pid, signal.SIGKILL)
            p.wait()
            rc = "timeout"
    execs = 0
    for line in open(logf, errors="replace"):
        if "execs:" in line:
            try:
                execs = max(execs, int(line.split("execs:")[1].split()[0]))
            except (ValueError, IndexError):
                pass
    fail = env["VERIF_FAILCASE"]
    if rc != 0:
        if os.path.exists(fail):
            dst, msg = save_violation(pid, fail)
            violations.append((dst, f"native fuzz target {target}: " + msg))
        elif rc == "timeout":
            notes.append(f"native fuzz {target}: driver timeout — inconclusive")
        else:
            notes.append(f"native fuzz {target} exited with {rc} without a failing case:\n" + tail(logf, 15))
    shutil.rmtree(tdir, ignore_errors=True)
    log(f"[fuzz] {target}: {execs} execs in {seconds}s")
    return execs


def run_replay(pid, path):
    work = os.path.join(ROOT, ".work", f"replay.{os.getpid()}")
    shutil.rmtree(work, ignore_errors=True)
    os.makedirs(work)
    try:
        c = cfg(pid)
        binary = build(work, race=c["race"])
        path = os.path.abspath(path)
        res = replay_files(binary, pid, work, [path], "quick", 1, set(), max(60, c["hang_s"]), "single")
        if res and not res[0]["ok"]:
            log(res[0]["msg"][:3000])
            log(f"VIOLATION property={pid} replay={path}")
            return 1
        log(f"[replay] {path}: the property holds on this case")
        return 0
    finally:
        shutil.rmtree(work, ignore_errors=True)


def setup():
    """Warm the build cache (plain and race test binaries) and run the self-test."""
    work = os.path.join(ROOT, ".work", f"setup.{os.getpid()}")
    os.makedirs(work, exist_ok=True)
    try:
        b = build(work)
        build(work, race=True)
        rc = run_bin(b, ["-test.run", "^TestSelf", "-test.timeout", "300s"], goenv(), 600, os.path.join(work, "self.log"))
        if rc != 0:
            raise Infra("harness self-test failed:\n" + tail(os.path.join(work, "self.log"), 60))
        log("[setup] self-test ok")
        return 0
    finally:
        shutil.rmtree(work, ignore_errors=True)


def main(argv):
    ap = argparse.ArgumentParser()
    ap.add_argument("property", nargs="?")
    ap.add_argument("--tier", default=os.environ.get("VERIF_TIER", "quick"), choices=["quick", "thorough"])
    ap.add_argument("--seed", type=int, default=None)
    ap.add_argument("--replay")
    ap.add_argument("--setup", action="store_true")
    a = ap.parse_args(argv)
    try:
        if a.setup:
            return setup()
        if not a.property or a.property not in PROPS:
            log("usage: check <C01..C20> [--tier quick|thorough] [--seed N] [--replay file]")
            return 2
        seed = a.seed
        if seed is None:
            try:
                seed = int(os.environ.get("VERIF_SEED", "1"))
            except ValueError:
                seed = 1
        seed = abs(seed) % (1 << 30)
        if a.replay:
            return run_replay(a.property, a.replay)
        default_budget = 60 if a.tier == "quick" else 420
        budget = int(os.environ.get("VERIF_BUDGET_S", default_budget))
        return run_check(a.property, a.tier, seed, budget)
    except Infra as e:
        log("INFRA:", e)
        return 2
