package ref

import (
	"bytes"
	"encoding/json"
	"fmt"
	"io"
	"math"
	"math/big"
	"strconv"
	"strings"
	"unicode/utf8"

	"verif/harness/model"
)

// ---------------------------------------------------------------- JSON reference decoder (encoding/json)

// JSONNumber classifies a number literal per the property's rule: an integer
// literal (no fraction/exponent) that fits int64 or uint64 is that integer; any
// other literal is the correctly rounded float64. big is set for integer
// literals outside the 64-bit range, inf for literals beyond the float64 range.
type JSONNumber struct {
	Lit      string
	IsInt    bool     // integer literal fitting int64/uint64
	Int      *big.Int // when IsInt
	F        float64  // correctly rounded value (also for integers)
	BigInt   bool     // integer literal outside 64 bits
	OutOfF64 bool     // beyond the float64 range
}

// ClassifyJSONNumber applies the rule to a literal that is valid per RFC 8259.
func ClassifyJSONNumber(lit string) JSONNumber {
	n := JSONNumber{Lit: lit}
	f, err := strconv.ParseFloat(lit, 64)
	n.F = f
	if err != nil {
		n.OutOfF64 = true
	}
	if !strings.ContainsAny(lit, ".eE") {
		bi, ok := new(big.Int).SetString(lit, 10)
		if ok {
			if bi.IsInt64() || bi.IsUint64() {
				n.IsInt, n.Int = true, bi
			} else {
				n.BigInt = true
			}
		}
	}
	return n
}

// DecodeJSONStream decodes a stream of top-level JSON values with
// encoding/json (Token + UseNumber: member order and duplicates preserved).
// Numbers are returned as VInt when the literal is an integer fitting 64 bits,
// else as VFloat; nums receives the literal classification in document order.
func DecodeJSONStream(b []byte) (vals []model.V, nums []JSONNumber, err error) {
	dec := json.NewDecoder(bytes.NewReader(b))
	dec.UseNumber()
	d := &jsonDec{dec: dec}
	for {
		tok, err := dec.Token()
		if err == io.EOF {
			return vals, d.nums, nil
		}
		if err != nil {
			return vals, d.nums, err
		}
		v, err := d.value(tok, 0)
		if err != nil {
			return vals, d.nums, err
		}
		vals = append(vals, v)
	}
}

// DecodeJSON decodes exactly one value followed only by whitespace.
func DecodeJSON(b []byte) (model.V, []JSONNumber, error) {
	vals, nums, err := DecodeJSONStream(b)
	if err != nil {
		return model.V{}, nums, err
	}
	if len(vals) != 1 {
		return model.V{}, nums, fmt.Errorf("expected exactly one JSON value, found %d", len(vals))
	}
	return vals[0], nums, nil
}

type jsonDec struct {
	dec  *json.Decoder
	nums []JSONNumber
}

func (d *jsonDec) value(tok json.Token, depth int) (model.V, error) {
	if depth > maxDepth {
		return model.V{}, fmt.Errorf("too deep")
	}
	switch t := tok.(type) {
	case nil:
		return model.Null(), nil
	case bool:
		return model.Bool(t), nil
	case string:
		return model.Str([]byte(t)), nil
	case json.Number:
		n := ClassifyJSONNumber(string(t))
		d.nums = append(d.nums, n)
		if n.IsInt {
			v := model.BigInt(n.Int)
			v.Lit = n.Lit
			return v, nil
		}
		v := model.Float64(n.F)
		v.Lit = n.Lit
		return v, nil
	case json.Delim:
		switch t {
		case '[':
			v := model.V{K: model.VArr, A: []model.V{}}
			for {
				tok, err := d.dec.Token()
				if err != nil {
					return v, noEOF(err)
				}
				if dl, ok := tok.(json.Delim); ok && dl == ']' {
					return v, nil
				}
				el, err := d.value(tok, depth+1)
				if err != nil {
					return v, err
				}
				v.A = append(v.A, el)
			}
		case '{':
			v := model.V{K: model.VObj, O: []model.Member{}}
			for {
				tok, err := d.dec.Token()
				if err != nil {
					return v, noEOF(err)
				}
				if dl, ok := tok.(json.Delim); ok && dl == '}' {
					return v, nil
				}
				key, ok := tok.(string)
				if !ok {
					return v, fmt.Errorf("non-string key token %v", tok)
				}
				tok, err = d.dec.Token()
				if err != nil {
					return v, noEOF(err)
				}
				el, err := d.value(tok, depth+1)
				if err != nil {
					return v, err
				}
				v.O = append(v.O, model.Member{Key: []byte(key), Val: el})
			}
		}
	}
	return model.V{}, fmt.Errorf("unexpected token %v", tok)
}

func noEOF(err error) error {
	if err == io.EOF {
		return io.ErrUnexpectedEOF
	}
	return err
}

// ---------------------------------------------------------------- JSON text generator (RFC 8259 grammar)

// JSONTok is one token of a generated text.
type JSONTok struct {
	Kind string // "{", "}", "[", "]", ",", ":", "str", "key", "num", "lit", "ws"
	Text []byte
}

// JSONEnc renders a value as RFC 8259 text under drawn choices (whitespace,
// escape spelling, number spelling).
type JSONEnc struct {
	C Chooser
	// Plain: no optional whitespace, shortest escapes.
	Plain bool
	// LoneSurrogates: occasionally insert an unpaired \uD800..\uDFFF escape.
	LoneSurrogates bool
	Toks           []JSONTok
	Feat           map[string]bool
}

func (e *JSONEnc) feat(f string) {
	if e.Feat == nil {
		e.Feat = map[string]bool{}
	}
	e.Feat[f] = true
}

func (e *JSONEnc) choose(n int, label string) int {
	if e.Plain || e.C == nil || n <= 1 {
		return 0
	}
	return e.C.Choose(n, label)
}

var wsChars = []byte{' ', '\t', '\n', '\r'}

func (e *JSONEnc) ws() {
	if e.Plain {
		return
	}
	if e.choose(4, "json_ws") != 3 {
		return
	}
	n := 1 + e.choose(3, "json_wsn")
	var b []byte
	for i := 0; i < n; i++ {
		b = append(b, wsChars[e.choose(4, "json_wsc")])
	}
	e.feat("ws")
	e.Toks = append(e.Toks, JSONTok{"ws", b})
}

func (e *JSONEnc) tok(kind string, text []byte) {
	e.Toks = append(e.Toks, JSONTok{kind, text})
}

// Bytes joins the tokens; spans lists the multi-byte tokens.
func JoinJSON(toks []JSONTok) (out []byte, spans []Span) {
	for _, t := range toks {
		if t.Kind != "ws" && len(t.Text) > 1 {
			spans = append(spans, Span{len(out), len(out) + len(t.Text)})
		}
		out = append(out, t.Text...)
	}
	return
}

const hexLower = "0123456789abcdef"
const hexUpper = "0123456789ABCDEF"

func (e *JSONEnc) u16(u uint16) []byte {
	hx := hexLower
	if e.choose(2, "json_hexcase") == 1 {
		hx = hexUpper
	}
	return []byte{'\\', 'u', hx[u>>12], hx[u>>8&15], hx[u>>4&15], hx[u&15]}
}

// QuoteJSON renders s (valid UTF-8) as a JSON string token.
func (e *JSONEnc) Quote(s []byte) []byte {
	out := []byte{'"'}
	for i := 0; i < len(s); {
		if e.LoneSurrogates && e.choose(12, "json_lone") == 11 {
			e.feat("lonesurrogate")
			out = append(out, e.u16(uint16(0xd800+e.choose(0x800, "json_lonev")))...)
		}
		r, sz := utf8.DecodeRune(s[i:])
		i += sz
		must := r < 0x20 || r == '"' || r == '\\'
		esc := must || e.choose(6, "json_esc") == 5
		if !esc {
			out = append(out, string(r)...)
			if r >= 0x80 {
				e.feat("multibyte")
			}
			continue
		}
		e.feat("escape")
		short := map[rune]byte{'"': '"', '\\': '\\', '/': '/', '\b': 'b', '\f': 'f', '\n': 'n', '\r': 'r', '\t': 't'}
		if c, ok := short[r]; ok && e.choose(3, "json_short") != 2 {
			out = append(out, '\\', c)
			continue
		}
		if r >= 0x10000 {
			e.feat("surrogatepair")
			r -= 0x10000
			out = append(out, e.u16(uint16(0xd800+(r>>10)))...)
			out = append(out, e.u16(uint16(0xdc00+(r&0x3ff)))...)
			continue
		}
		out = append(out, e.u16(uint16(r))...)
	}
	if e.LoneSurrogates && e.choose(12, "json_lone_end") == 11 {
		e.feat("lonesurrogate")
		out = append(out, e.u16(uint16(0xd800+e.choose(0x800, "json_lonev")))...)
	}
	return append(out, '"')
}

// Encode renders v. Strings and keys must be valid UTF-8. Numbers: VInt is
// written as an integer literal, VFloat (finite) through NumLit choices.
func (e *JSONEnc) Encode(v model.V) {
	e.ws()
	e.value(v)
	e.ws()
}

func (e *JSONEnc) value(v model.V) {
	switch v.K {
	case model.VNull:
		e.tok("lit", []byte("null"))
	case model.VBool:
		if v.B {
			e.tok("lit", []byte("true"))
		} else {
			e.tok("lit", []byte("false"))
		}
	case model.VInt:
		if v.Lit != "" {
			e.tok("num", []byte(v.Lit))
		} else {
			e.tok("num", []byte(v.N.String()))
		}
	case model.VFloat:
		if v.Lit != "" {
			e.tok("num", []byte(v.Lit))
		} else {
			e.tok("num", []byte(e.floatLit(v.Float())))
		}
	case model.VStr:
		e.tok("str", e.Quote(v.S))
	case model.VArr:
		e.tok("[", []byte("["))
		e.ws()
		for i, x := range v.A {
			if i > 0 {
				e.tok(",", []byte(","))
				e.ws()
			}
			e.value(x)
			e.ws()
		}
		e.tok("]", []byte("]"))
	case model.VObj:
		e.tok("{", []byte("{"))
		e.ws()
		for i, m := range v.O {
			if i > 0 {
				e.tok(",", []byte(","))
				e.ws()
			}
			e.tok("key", e.Quote(m.Key))
			e.ws()
			e.tok(":", []byte(":"))
			e.ws()
			e.value(m.Val)
			e.ws()
		}
		e.tok("}", []byte("}"))
	}
}

// floatLit spells a finite float64 so that it parses back to exactly f and is
// always a non-integer literal (contains '.', 'e' or 'E').
func (e *JSONEnc) floatLit(f float64) string {
	if math.IsNaN(f) || math.IsInf(f, 0) {
		return "0.0"
	}
	var s string
	switch e.choose(4, "json_fmt") {
	case 0:
		s = strconv.FormatFloat(f, 'g', -1, 64)
	case 1:
		s = strconv.FormatFloat(f, 'e', -1, 64)
	case 2:
		if math.Abs(f) < 1e21 && (f == 0 || math.Abs(f) >= 1e-7) {
			s = strconv.FormatFloat(f, 'f', -1, 64)
		} else {
			s = strconv.FormatFloat(f, 'g', -1, 64)
		}
	default:
		s = strconv.FormatFloat(f, 'E', -1, 64)
	}
	if !strings.ContainsAny(s, ".eE") {
		s += ".0"
	}
	// RFC 8259: exponent digits may have a sign and leading zeros are fine there.
	return s
}
