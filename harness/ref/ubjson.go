package ref

import (
	"encoding/binary"
	"math"
	"math/big"
	"regexp"

	"verif/harness/model"
)

// ---------------------------------------------------------------- UBJSON (draft 12) decoder

// UBJInfo describes what a decoded value used.
type UBJInfo struct {
	Counted     bool // some '#' counted container
	Typed       bool // some '$' typed container
	TypedNested bool // a typed container whose element type is itself a container
	Noop        bool // a no-op was skipped
	// Ambiguous: the input uses a construct draft 12 does not define clearly
	// (no-op inside a counted/typed container or object, '$N', char > 127);
	// no value verdict should be derived.
	Ambiguous   bool
	NonMinimalL bool   // a length written with a wider marker than necessary
	ZeroSized   uint64 // number of elements produced from zero payload bytes ($Z/$T/$F)
	Depth       int
}

type ubjDec struct {
	b    []byte
	pos  int
	info UBJInfo
}

type ubjErr struct{ st Status }

// DecodeUBJSON decodes exactly one value (skipping leading no-ops) from b.
func DecodeUBJSON(b []byte) (v model.V, n int, st Status, info UBJInfo) {
	d := &ubjDec{b: b}
	defer func() {
		if r := recover(); r != nil {
			if ue, ok := r.(ubjErr); ok {
				st, info = ue.st, d.info
				return
			}
			panic(r)
		}
	}()
	m := d.marker(false)
	v = d.value(m, 0)
	return v, d.pos, OK, d.info
}

func (d *ubjDec) need(n int) []byte {
	if n < 0 || d.pos+n > len(d.b) || d.pos+n < d.pos {
		panic(ubjErr{Truncated})
	}
	s := d.b[d.pos : d.pos+n]
	d.pos += n
	return s
}

func (d *ubjDec) peek() byte {
	if d.pos >= len(d.b) {
		panic(ubjErr{Truncated})
	}
	return d.b[d.pos]
}

// marker reads the next marker, skipping no-ops. inCounted marks positions
// where a no-op's meaning is unclear.
func (d *ubjDec) marker(unclear bool) byte {
	for {
		m := d.need(1)[0]
		if m != 'N' {
			return m
		}
		d.info.Noop = true
		if unclear {
			d.info.Ambiguous = true
		}
	}
}

func (d *ubjDec) intPayload(m byte) (int64, bool) {
	switch m {
	case 'i':
		return int64(int8(d.need(1)[0])), true
	case 'U':
		return int64(d.need(1)[0]), true
	case 'I':
		return int64(int16(binary.BigEndian.Uint16(d.need(2)))), true
	case 'l':
		return int64(int32(binary.BigEndian.Uint32(d.need(4)))), true
	case 'L':
		return int64(binary.BigEndian.Uint64(d.need(8))), true
	}
	return 0, false
}

func minimalLenMarker(n int64) byte {
	switch {
	case n <= math.MaxInt8:
		return 'i'
	case n <= math.MaxUint8:
		return 'U'
	case n <= math.MaxInt16:
		return 'I'
	case n <= math.MaxInt32:
		return 'l'
	}
	return 'L'
}

var lenRank = map[byte]int{'i': 0, 'U': 1, 'I': 2, 'l': 3, 'L': 4}

func (d *ubjDec) length() int64 {
	m := d.need(1)[0]
	n, ok := d.intPayload(m)
	if !ok {
		panic(ubjErr{Malformed})
	}
	if n < 0 {
		panic(ubjErr{Malformed})
	}
	if lenRank[m] > lenRank[minimalLenMarker(n)] {
		d.info.NonMinimalL = true
	}
	return n
}

func (d *ubjDec) str() []byte {
	n := d.length()
	if n > int64(len(d.b)) {
		panic(ubjErr{Truncated})
	}
	return append([]byte{}, d.need(int(n))...)
}

func isValueMarker(m byte) bool {
	switch m {
	case 'Z', 'T', 'F', 'i', 'U', 'I', 'l', 'L', 'd', 'D', 'H', 'C', 'S', '[', '{':
		return true
	}
	return false
}

// value decodes the payload of a value whose marker m was already consumed.
func (d *ubjDec) value(m byte, depth int) model.V {
	if depth > maxDepth {
		panic(ubjErr{TooDeep})
	}
	if depth > d.info.Depth {
		d.info.Depth = depth
	}
	if n, ok := d.intPayload(m); ok {
		return model.Int(n)
	}
	switch m {
	case 'Z':
		return model.Null()
	case 'T':
		return model.Bool(true)
	case 'F':
		return model.Bool(false)
	case 'd':
		return model.Float32Bits(binary.BigEndian.Uint32(d.need(4)))
	case 'D':
		return model.Float64Bits(binary.BigEndian.Uint64(d.need(8)))
	case 'C':
		c := d.need(1)[0]
		if c > 127 {
			d.info.Ambiguous = true
		}
		return model.Uint(uint64(c))
	case 'H', 'S':
		return model.Str(d.str())
	case '[':
		return d.array(depth)
	case '{':
		return d.object(depth)
	}
	panic(ubjErr{Malformed})
}

// header parses the optional "$T" and "#n" of a container. typ == 0: untyped;
// count < 0: not counted.
func (d *ubjDec) header() (typ byte, count int64) {
	count = -1
	if d.peek() == '$' {
		d.pos++
		typ = d.need(1)[0]
		if typ == 'N' {
			d.info.Ambiguous = true
		} else if !isValueMarker(typ) {
			panic(ubjErr{Malformed})
		}
		if d.peek() != '#' {
			panic(ubjErr{Malformed}) // a type requires a count
		}
		d.info.Typed = true
		if typ == '[' || typ == '{' {
			d.info.TypedNested = true
		}
	}
	if d.peek() == '#' {
		d.pos++
		count = d.length()
		d.info.Counted = true
	}
	return
}

func (d *ubjDec) zeroSized(typ byte, count int64) {
	if typ == 'Z' || typ == 'T' || typ == 'F' || typ == 'N' {
		d.info.ZeroSized += uint64(count)
		if count > 1<<20 {
			// cannot be materialised; refuse a verdict
			panic(ubjErr{TooDeep})
		}
	}
}

func (d *ubjDec) array(depth int) model.V {
	typ, count := d.header()
	v := model.V{K: model.VArr, A: []model.V{}}
	if count < 0 {
		for {
			m := d.marker(false)
			if m == ']' {
				return v
			}
			v.A = append(v.A, d.value(m, depth+1))
		}
	}
	d.zeroSized(typ, count)
	for i := int64(0); i < count; i++ {
		if typ != 0 {
			if typ == 'N' {
				continue
			}
			v.A = append(v.A, d.value(typ, depth+1))
		} else {
			m := d.marker(true)
			v.A = append(v.A, d.value(m, depth+1))
		}
	}
	return v
}

func (d *ubjDec) object(depth int) model.V {
	typ, count := d.header()
	v := model.V{K: model.VObj, O: []model.Member{}}
	d.zeroSized(typ, maxI64(count, 0))
	for i := int64(0); count < 0 || i < count; i++ {
		if count < 0 {
			// a key starts with its length marker; '}' ends the object
			for d.peek() == 'N' {
				d.pos++
				d.info.Noop, d.info.Ambiguous = true, true
			}
			if d.peek() == '}' {
				d.pos++
				return v
			}
		}
		key := d.str()
		var val model.V
		if typ != 0 {
			if typ == 'N' {
				continue
			}
			val = d.value(typ, depth+1)
		} else {
			m := d.marker(true)
			val = d.value(m, depth+1)
		}
		v.O = append(v.O, model.Member{Key: key, Val: val})
	}
	return v
}

func maxI64(a, b int64) int64 {
	if a > b {
		return a
	}
	return b
}

// ---------------------------------------------------------------- UBJSON constructive encoder

// UBJEnc renders values as UBJSON under drawn representation choices.
type UBJEnc struct {
	C       Chooser
	Minimal bool // smallest markers, plain containers only
	NoNoop  bool
	NoTyped bool // no '$' containers
	// NoTypedNested forbids typed containers whose element type is a container.
	NoTypedNested bool
	// NoZeroSizedTyped forbids $Z/$T/$F containers.
	NoZeroSizedTyped bool
	// NoCounted forbids '#' (and therefore '$').
	NoCounted  bool
	NoChar     bool
	NoHighPrec bool
	Out        []byte
	Spans      []Span
	Feat       map[string]bool
}

func (e *UBJEnc) feat(f string) {
	if e.Feat == nil {
		e.Feat = map[string]bool{}
	}
	e.Feat[f] = true
}

func (e *UBJEnc) choose(n int, label string) int {
	if e.Minimal || e.C == nil || n <= 1 {
		return 0
	}
	return e.C.Choose(n, label)
}

var intMarkers = []byte{'i', 'U', 'I', 'l', 'L'}

func fitsMarker(m byte, n int64) bool {
	switch m {
	case 'i':
		return n >= math.MinInt8 && n <= math.MaxInt8
	case 'U':
		return n >= 0 && n <= math.MaxUint8
	case 'I':
		return n >= math.MinInt16 && n <= math.MaxInt16
	case 'l':
		return n >= math.MinInt32 && n <= math.MaxInt32
	case 'L':
		return true
	}
	return false
}

func (e *UBJEnc) intPayload(m byte, n int64) {
	switch m {
	case 'i', 'U':
		e.Out = append(e.Out, byte(n))
	case 'I':
		e.Out = append(e.Out, 0, 0)
		binary.BigEndian.PutUint16(e.Out[len(e.Out)-2:], uint16(n))
	case 'l':
		e.Out = append(e.Out, 0, 0, 0, 0)
		binary.BigEndian.PutUint32(e.Out[len(e.Out)-4:], uint32(n))
	case 'L':
		e.Out = append(e.Out, 0, 0, 0, 0, 0, 0, 0, 0)
		binary.BigEndian.PutUint64(e.Out[len(e.Out)-8:], uint64(n))
	}
}

// pickIntMarker chooses a marker that can hold n: mostly the smallest.
func (e *UBJEnc) pickIntMarker(n int64, label string) byte {
	var fits []byte
	for _, m := range intMarkers {
		if fitsMarker(m, n) {
			fits = append(fits, m)
		}
	}
	if e.choose(4, label+"_wide") == 3 && len(fits) > 1 {
		e.feat("nonminimal")
		return fits[1+e.choose(len(fits)-1, label+"_which")]
	}
	return fits[0]
}

func (e *UBJEnc) length(n int) {
	start := len(e.Out)
	m := e.pickIntMarker(int64(n), "ubj_len")
	e.Out = append(e.Out, m)
	e.intPayload(m, int64(n))
	e.Spans = append(e.Spans, Span{start, len(e.Out)})
}

func (e *UBJEnc) strPayload(s []byte) {
	e.length(len(s))
	if len(s) > 1 {
		e.Spans = append(e.Spans, Span{len(e.Out), len(e.Out) + len(s)})
	}
	e.Out = append(e.Out, s...)
}

var decimalRE = regexp.MustCompile(`^-?(0|[1-9][0-9]*)(\.[0-9]+)?([eE][+-]?[0-9]+)?$`)

// scalarMarker picks the marker a scalar will be written with.
func (e *UBJEnc) scalarMarker(v model.V) byte {
	switch v.K {
	case model.VNull:
		return 'Z'
	case model.VBool:
		if v.B {
			return 'T'
		}
		return 'F'
	case model.VInt:
		n := v.N.Int64()
		if !e.NoChar && n >= 0 && n <= 127 && e.choose(8, "ubj_char") == 7 {
			e.feat("char")
			return 'C'
		}
		return e.pickIntMarker(n, "ubj_int")
	case model.VFloat:
		if v.F32 {
			return 'd'
		}
		return 'D'
	case model.VStr:
		if !e.NoHighPrec && decimalRE.Match(v.S) && e.choose(2, "ubj_H") == 1 {
			e.feat("highprec")
			return 'H'
		}
		return 'S'
	case model.VArr:
		return '['
	}
	return '{'
}

func (e *UBJEnc) payload(m byte, v model.V) {
	start := len(e.Out)
	switch m {
	case 'Z', 'T', 'F':
	case 'C':
		e.Out = append(e.Out, byte(v.N.Int64()))
	case 'i', 'U', 'I', 'l', 'L':
		e.intPayload(m, v.N.Int64())
	case 'd':
		e.Out = append(e.Out, 0, 0, 0, 0)
		binary.BigEndian.PutUint32(e.Out[len(e.Out)-4:], uint32(v.Bits))
	case 'D':
		e.Out = append(e.Out, 0, 0, 0, 0, 0, 0, 0, 0)
		binary.BigEndian.PutUint64(e.Out[len(e.Out)-8:], v.Bits)
	case 'S', 'H':
		e.strPayload(v.S)
		return
	case '[':
		e.arrayBody(v)
		return
	case '{':
		e.objectBody(v)
		return
	}
	if len(e.Out)-start > 1 {
		e.Spans = append(e.Spans, Span{start, len(e.Out)})
	}
}

// Encode appends v (Int must fit int64).
func (e *UBJEnc) Encode(v model.V) {
	e.noops("ubj_noop_top")
	e.encodeValue(v)
}

func (e *UBJEnc) noops(label string) {
	if e.NoNoop || e.Minimal {
		return
	}
	for e.choose(8, label) == 7 {
		e.feat("noop")
		e.Out = append(e.Out, 'N')
	}
}

func (e *UBJEnc) encodeValue(v model.V) {
	m := e.scalarMarker(v)
	e.Out = append(e.Out, m)
	e.payload(m, v)
}

// commonType returns a marker every element can be written with, or 0.
func (e *UBJEnc) commonType(vals []model.V) byte {
	if len(vals) == 0 {
		// an empty container may announce any element type
		cands := []byte{'i', 'U', 'I', 'l', 'L', 'd', 'D', 'S'}
		if !e.NoChar {
			cands = append(cands, 'C')
		}
		if !e.NoHighPrec {
			cands = append(cands, 'H')
		}
		if !e.NoZeroSizedTyped {
			cands = append(cands, 'Z', 'T', 'F')
		}
		if !e.NoTypedNested {
			cands = append(cands, '[', '{')
		}
		e.feat("typedempty")
		return cands[e.choose(len(cands), "ubj_emptytype")]
	}
	k := vals[0].K
	for _, v := range vals {
		if v.K != k {
			return 0
		}
	}
	switch k {
	case model.VNull:
		if e.NoZeroSizedTyped {
			return 0
		}
		return 'Z'
	case model.VBool:
		b := vals[0].B
		for _, v := range vals {
			if v.B != b {
				return 0
			}
		}
		if e.NoZeroSizedTyped {
			return 0
		}
		if b {
			return 'T'
		}
		return 'F'
	case model.VInt:
		// smallest marker holding every element, possibly widened
		for _, v := range vals {
			if !v.N.IsInt64() {
				return 0
			}
		}
		allChar := !e.NoChar
		for _, v := range vals {
			if n := v.N.Int64(); n < 0 || n > 127 {
				allChar = false
			}
		}
		if allChar && e.choose(6, "ubj_tchar") == 5 {
			e.feat("char")
			return 'C'
		}
		var fits []byte
		for _, m := range intMarkers {
			ok := true
			for _, v := range vals {
				if !fitsMarker(m, v.N.Int64()) {
					ok = false
					break
				}
			}
			if ok {
				fits = append(fits, m)
			}
		}
		if len(fits) == 0 {
			return 0
		}
		if len(fits) > 1 && e.choose(4, "ubj_twide") == 3 {
			return fits[1+e.choose(len(fits)-1, "ubj_twhich")]
		}
		return fits[0]
	case model.VFloat:
		w := vals[0].F32
		for _, v := range vals {
			if v.F32 != w {
				return 0
			}
		}
		if w {
			return 'd'
		}
		return 'D'
	case model.VStr:
		allDec := !e.NoHighPrec
		for _, v := range vals {
			if !decimalRE.Match(v.S) {
				allDec = false
			}
		}
		if allDec && e.choose(2, "ubj_tH") == 1 {
			e.feat("highprec")
			return 'H'
		}
		return 'S'
	case model.VArr:
		if e.NoTypedNested {
			return 0
		}
		return '['
	case model.VObj:
		if e.NoTypedNested {
			return 0
		}
		return '{'
	}
	return 0
}

// containerMode: 0 plain, 1 counted, 2 typed
func (e *UBJEnc) containerMode(vals []model.V) (mode int, typ byte) {
	if e.Minimal || e.NoCounted {
		return 0, 0
	}
	c := e.choose(4, "ubj_cmode")
	switch c {
	case 0, 1:
		return 0, 0
	case 2:
		e.feat("counted")
		return 1, 0
	}
	if e.NoTyped {
		e.feat("counted")
		return 1, 0
	}
	if t := e.commonType(vals); t != 0 {
		e.feat("typed")
		if t == '[' || t == '{' {
			e.feat("typednested")
		}
		return 2, t
	}
	e.feat("counted")
	return 1, 0
}

func (e *UBJEnc) arrayBody(v model.V) {
	mode, typ := e.containerMode(v.A)
	switch mode {
	case 0:
		for _, x := range v.A {
			e.noops("ubj_noop_arr")
			e.encodeValue(x)
		}
		e.noops("ubj_noop_arr")
		e.Out = append(e.Out, ']')
	case 1:
		e.Out = append(e.Out, '#')
		e.length(len(v.A))
		for _, x := range v.A {
			e.encodeValue(x)
		}
	default:
		e.Out = append(e.Out, '$', typ, '#')
		e.length(len(v.A))
		for _, x := range v.A {
			e.payload(typ, x)
		}
	}
}

func (e *UBJEnc) objectBody(v model.V) {
	vals := make([]model.V, len(v.O))
	for i, m := range v.O {
		vals[i] = m.Val
	}
	mode, typ := e.containerMode(vals)
	switch mode {
	case 0:
		for _, m := range v.O {
			e.strPayload(m.Key)
			e.encodeValue(m.Val)
		}
		e.Out = append(e.Out, '}')
	case 1:
		e.Out = append(e.Out, '#')
		e.length(len(v.O))
		for _, m := range v.O {
			e.strPayload(m.Key)
			e.encodeValue(m.Val)
		}
	default:
		e.Out = append(e.Out, '$', typ, '#')
		e.length(len(v.O))
		for _, m := range v.O {
			e.strPayload(m.Key)
			e.payload(typ, m.Val)
		}
	}
}

var _ = big.NewInt
