// Package ref holds the harness' independent reference codecs: decoders written
// from the specifications (RFC 7049, UBJSON draft 12; encoding/json for RFC
// 8259) and constructive encoders ("foreign producers") that render a value
// under drawn representation choices and report the token spans of the
// document.
package ref

import (
	"encoding/binary"
	"fmt"
	"math"
	"math/big"

	"verif/harness/model"
)

// Status classifies an input.
type Status int

const (
	OK        Status = iota // one complete well-formed item/value
	Truncated               // a proper prefix of a well-formed item (needs more input)
	Malformed               // can never become well-formed
	TooDeep                 // nesting beyond the reference decoder's recursion limit (no verdict)
)

func (s Status) String() string {
	return [...]string{"ok", "truncated", "malformed", "too-deep"}[s]
}

// Chooser abstracts the source of representation choices (rapid in the
// generators, fixed in self-tests).
type Chooser interface {
	// Choose returns a number in [0,n).
	Choose(n int, label string) int
}

// Span is a half-open byte range of one token of a generated document.
type Span struct{ Start, End int }

const maxDepth = 2000

// ---------------------------------------------------------------- CBOR decoder

// CBORInfo describes what a decoded item used.
type CBORInfo struct {
	// Unsupported names the first feature outside the library's documented
	// subset ("" = inside the subset).
	Unsupported string
	NonMinimal  bool // some argument wider than necessary
	Indefinite  bool // some indefinite-length container
	BigNeg      bool // negative integer whose argument has its top bit set (value < -2^63 is Unsupported)
	Depth       int
}

type cborDec struct {
	b    []byte
	pos  int
	info CBORInfo
}

type cborErr struct{ st Status }

func (e cborErr) Error() string { return e.st.String() }

// DecodeCBOR decodes exactly one data item from the start of b. n is the number
// of bytes consumed when st == OK.
func DecodeCBOR(b []byte) (v model.V, n int, st Status, info CBORInfo) {
	d := &cborDec{b: b}
	defer func() {
		if r := recover(); r != nil {
			if ce, ok := r.(cborErr); ok {
				st, info = ce.st, d.info
				return
			}
			panic(r)
		}
	}()
	v = d.item(0)
	return v, d.pos, OK, d.info
}

func (d *cborDec) need(n int) []byte {
	if n < 0 || d.pos+n > len(d.b) || d.pos+n < d.pos {
		panic(cborErr{Truncated})
	}
	s := d.b[d.pos : d.pos+n]
	d.pos += n
	return s
}

func (d *cborDec) unsupported(what string) {
	if d.info.Unsupported == "" {
		d.info.Unsupported = what
	}
}

// arg reads the argument of an initial byte. indef is true for minor 31.
func (d *cborDec) arg(minor byte) (val uint64, indef bool) {
	switch {
	case minor < 24:
		return uint64(minor), false
	case minor == 24:
		v := uint64(d.need(1)[0])
		if v < 24 {
			d.info.NonMinimal = true
		}
		return v, false
	case minor == 25:
		v := uint64(binary.BigEndian.Uint16(d.need(2)))
		if v <= math.MaxUint8 {
			d.info.NonMinimal = true
		}
		return v, false
	case minor == 26:
		v := uint64(binary.BigEndian.Uint32(d.need(4)))
		if v <= math.MaxUint16 {
			d.info.NonMinimal = true
		}
		return v, false
	case minor == 27:
		v := binary.BigEndian.Uint64(d.need(8))
		if v <= math.MaxUint32 {
			d.info.NonMinimal = true
		}
		return v, false
	case minor == 31:
		return 0, true
	}
	panic(cborErr{Malformed}) // 28..30 reserved
}

func (d *cborDec) item(depth int) model.V {
	if depth > maxDepth {
		panic(cborErr{TooDeep})
	}
	if depth > d.info.Depth {
		d.info.Depth = depth
	}
	ib := d.need(1)[0]
	major, minor := ib>>5, ib&0x1f
	switch major {
	case 0:
		v, indef := d.arg(minor)
		if indef {
			panic(cborErr{Malformed})
		}
		return model.Uint(v)
	case 1:
		v, indef := d.arg(minor)
		if indef {
			panic(cborErr{Malformed})
		}
		if v > math.MaxInt64 {
			d.info.BigNeg = true
			d.unsupported("negative integer below -2^63")
		}
		n := new(big.Int).SetUint64(v)
		n.Neg(n).Sub(n, big.NewInt(1))
		return model.BigInt(n)
	case 2, 3:
		l, indef := d.arg(minor)
		var data []byte
		if indef {
			d.unsupported("indefinite-length string")
			for {
				cb := d.need(1)[0]
				if cb == 0xff {
					break
				}
				if cb>>5 != major {
					panic(cborErr{Malformed})
				}
				cl, ci := d.arg(cb & 0x1f)
				if ci {
					panic(cborErr{Malformed})
				}
				if cl > uint64(len(d.b)) {
					panic(cborErr{Truncated})
				}
				data = append(data, d.need(int(cl))...)
			}
		} else {
			if l > uint64(len(d.b)) {
				panic(cborErr{Truncated})
			}
			data = d.need(int(l))
		}
		if major == 3 {
			return model.Str(data)
		}
		a := make([]model.V, len(data))
		for i, c := range data {
			a[i] = model.Uint(uint64(c))
		}
		return model.V{K: model.VArr, A: a}
	case 4:
		l, indef := d.arg(minor)
		v := model.V{K: model.VArr, A: []model.V{}}
		if indef {
			d.info.Indefinite = true
			for {
				if d.peek() == 0xff {
					d.pos++
					return v
				}
				v.A = append(v.A, d.item(depth+1))
			}
		}
		for i := uint64(0); i < l; i++ {
			v.A = append(v.A, d.item(depth+1))
		}
		return v
	case 5:
		l, indef := d.arg(minor)
		v := model.V{K: model.VObj, O: []model.Member{}}
		if indef {
			d.info.Indefinite = true
		}
		for i := uint64(0); indef || i < l; i++ {
			if indef && d.peek() == 0xff {
				d.pos++
				return v
			}
			kpos := d.pos
			kb := d.peek()
			k := d.item(depth + 1)
			var key []byte
			if kb>>5 != 3 {
				d.unsupported("non-text map key")
				key = []byte(fmt.Sprintf("<non-text key at %d>", kpos))
			} else {
				key = k.S
			}
			if indef && d.peek() == 0xff {
				panic(cborErr{Malformed}) // break between key and value
			}
			val := d.item(depth + 1)
			v.O = append(v.O, model.Member{Key: key, Val: val})
		}
		return v
	case 6:
		if _, indef := d.arg(minor); indef {
			panic(cborErr{Malformed})
		}
		d.unsupported("tag")
		return d.item(depth + 1)
	default: // 7
		switch {
		case minor < 20:
			d.unsupported("simple value")
			return model.Null()
		case minor == 20:
			return model.Bool(false)
		case minor == 21:
			return model.Bool(true)
		case minor == 22, minor == 23:
			return model.Null()
		case minor == 24:
			d.need(1) // RFC 7049 App. A lists simple(24) = f818 as an example; 8949 later forbade < 32
			d.unsupported("simple value")
			return model.Null()
		case minor == 25:
			h := binary.BigEndian.Uint16(d.need(2))
			d.unsupported("half-precision float")
			return model.Float32Bits(math.Float32bits(halfToFloat(h)))
		case minor == 26:
			return model.Float32Bits(binary.BigEndian.Uint32(d.need(4)))
		case minor == 27:
			return model.Float64Bits(binary.BigEndian.Uint64(d.need(8)))
		case minor == 31:
			panic(cborErr{Malformed}) // break outside an indefinite item
		}
		panic(cborErr{Malformed}) // 28..30
	}
}

func (d *cborDec) peek() byte {
	if d.pos >= len(d.b) {
		panic(cborErr{Truncated})
	}
	return d.b[d.pos]
}

func halfToFloat(h uint16) float32 {
	exp := int(h>>10) & 0x1f
	mant := float64(h & 0x3ff)
	var v float64
	switch exp {
	case 0:
		v = math.Ldexp(mant, -24)
	case 31:
		if mant == 0 {
			v = math.Inf(1)
		} else {
			v = math.NaN()
		}
	default:
		v = math.Ldexp(mant+1024, exp-25)
	}
	if h&0x8000 != 0 {
		v = -v
	}
	return float32(v)
}

// ---------------------------------------------------------------- CBOR constructive encoder

// CBOREnc renders values as CBOR under drawn representation choices.
type CBOREnc struct {
	C Chooser
	// Minimal forces the canonical (shortest) form everywhere.
	Minimal bool
	// NoIndef forbids indefinite-length containers.
	NoIndef bool
	// NoBytes forbids rendering byte-valued arrays as byte strings.
	NoBytes bool
	Out     []byte
	Spans   []Span
	// features used (for non-trivial rules)
	Feat map[string]bool
	// Inject replaces the k-th scalar leaf (document order) by raw bytes;
	// InjectKey replaces the k-th map key.
	Inject    map[int][]byte
	InjectKey map[int][]byte
	leaf, key int
}

func (e *CBOREnc) feat(f string) {
	if e.Feat == nil {
		e.Feat = map[string]bool{}
	}
	e.Feat[f] = true
}

func (e *CBOREnc) choose(n int, label string) int {
	if e.Minimal || e.C == nil || n <= 1 {
		return 0
	}
	return e.C.Choose(n, label)
}

// head writes an initial byte with argument v using a drawn width >= minimal.
func (e *CBOREnc) head(major byte, v uint64) {
	start := len(e.Out)
	// candidate widths: 0 (immediate), 1, 2, 4, 8 bytes
	minIdx := 0
	switch {
	case v < 24:
		minIdx = 0
	case v <= math.MaxUint8:
		minIdx = 1
	case v <= math.MaxUint16:
		minIdx = 2
	case v <= math.MaxUint32:
		minIdx = 3
	default:
		minIdx = 4
	}
	idx := minIdx
	// mostly minimal, sometimes wider
	if c := e.choose(4, "cbor_width"); c == 3 && minIdx < 4 {
		idx = minIdx + 1 + e.choose(4-minIdx, "cbor_wider")
		e.feat("nonminimal")
	}
	switch idx {
	case 0:
		e.Out = append(e.Out, major<<5|byte(v))
	case 1:
		e.Out = append(e.Out, major<<5|24, byte(v))
	case 2:
		e.Out = append(e.Out, major<<5|25, 0, 0)
		binary.BigEndian.PutUint16(e.Out[len(e.Out)-2:], uint16(v))
	case 3:
		e.Out = append(e.Out, major<<5|26, 0, 0, 0, 0)
		binary.BigEndian.PutUint32(e.Out[len(e.Out)-4:], uint32(v))
	default:
		e.Out = append(e.Out, major<<5|27, 0, 0, 0, 0, 0, 0, 0, 0)
		binary.BigEndian.PutUint64(e.Out[len(e.Out)-8:], v)
	}
	if len(e.Out)-start > 1 {
		e.Spans = append(e.Spans, Span{start, len(e.Out)})
	}
}

var two64 = new(big.Int).Lsh(big.NewInt(1), 64)

// Encode appends v. Supported: Null, Bool, Int in [-2^64, 2^64-1], Float, Str, Arr, Obj.
func (e *CBOREnc) Encode(v model.V) {
	if v.K != model.VArr && v.K != model.VObj {
		k := e.leaf
		e.leaf++
		if raw, ok := e.Inject[k]; ok {
			e.Out = append(e.Out, raw...)
			return
		}
	}
	switch v.K {
	case model.VNull:
		if e.choose(4, "cbor_undef") == 3 {
			e.Out = append(e.Out, 0xf7)
			e.feat("undefined")
		} else {
			e.Out = append(e.Out, 0xf6)
		}
	case model.VBool:
		if v.B {
			e.Out = append(e.Out, 0xf5)
		} else {
			e.Out = append(e.Out, 0xf4)
		}
	case model.VInt:
		if v.N.Sign() >= 0 {
			e.head(0, v.N.Uint64())
		} else {
			m := new(big.Int).Neg(v.N)
			m.Sub(m, big.NewInt(1))
			if m.Uint64() > math.MaxInt64 {
				e.feat("bigneg")
			}
			if m.Uint64() > math.MaxInt8 {
				e.feat("negtopbit")
			}
			e.head(1, m.Uint64())
		}
	case model.VFloat:
		start := len(e.Out)
		if v.F32 {
			e.Out = append(e.Out, 0xfa, 0, 0, 0, 0)
			binary.BigEndian.PutUint32(e.Out[len(e.Out)-4:], uint32(v.Bits))
		} else {
			e.Out = append(e.Out, 0xfb, 0, 0, 0, 0, 0, 0, 0, 0)
			binary.BigEndian.PutUint64(e.Out[len(e.Out)-8:], v.Bits)
		}
		e.Spans = append(e.Spans, Span{start, len(e.Out)})
	case model.VStr:
		e.text(v.S)
	case model.VArr:
		if !e.NoBytes && !e.Minimal && allBytes(v.A) && e.choose(3, "cbor_bytes") == 2 {
			e.feat("bytestring")
			e.head(2, uint64(len(v.A)))
			if len(v.A) > 1 {
				e.Spans = append(e.Spans, Span{len(e.Out), len(e.Out) + len(v.A)})
			}
			for _, x := range v.A {
				e.Out = append(e.Out, byte(x.N.Uint64()))
			}
			return
		}
		if !e.NoIndef && e.choose(3, "cbor_indef") == 2 {
			e.feat("indefinite")
			e.Out = append(e.Out, 0x9f)
			for _, x := range v.A {
				e.Encode(x)
			}
			e.Out = append(e.Out, 0xff)
			return
		}
		e.head(4, uint64(len(v.A)))
		for _, x := range v.A {
			e.Encode(x)
		}
	case model.VObj:
		indef := !e.NoIndef && e.choose(3, "cbor_indef") == 2
		if indef {
			e.feat("indefinite")
			e.Out = append(e.Out, 0xbf)
		} else {
			e.head(5, uint64(len(v.O)))
		}
		for _, m := range v.O {
			k := e.key
			e.key++
			if raw, ok := e.InjectKey[k]; ok {
				e.Out = append(e.Out, raw...)
			} else {
				e.text(m.Key)
			}
			e.Encode(m.Val)
		}
		if indef {
			e.Out = append(e.Out, 0xff)
		}
	}
}

func (e *CBOREnc) text(s []byte) {
	e.head(3, uint64(len(s)))
	if len(s) > 1 {
		e.Spans = append(e.Spans, Span{len(e.Out), len(e.Out) + len(s)})
	}
	e.Out = append(e.Out, s...)
}

func allBytes(a []model.V) bool {
	for _, x := range a {
		if x.K != model.VInt || x.N.Sign() < 0 || x.N.Cmp(big.NewInt(255)) > 0 {
			return false
		}
	}
	return true
}
