module verif/harness

go 1.23

require (
	github.com/elastic/go-structform v0.0.0
	pgregory.net/rapid v1.3.0
)

replace github.com/elastic/go-structform => /repo
