// Package gen holds the rapid generators shared by all properties. Every random
// choice goes through rapid so that shrinking and replay work.
package gen

import (
	"math"
	"os"
	"strconv"
	"strings"
	"sync"

	"pgregory.net/rapid"
)

// ---- generator feature switches (known-finding exclusions) ----

var (
	exclOnce sync.Once
	exclSet  map[string]bool
	exclMu   sync.Mutex
	exclCnt  = map[string]int64{}
)

// Excluded reports whether generator feature f is switched off (because an open
// known finding names it in its excludes= field) and counts the query.
func Excluded(f string) bool {
	exclOnce.Do(func() {
		exclSet = map[string]bool{}
		for _, s := range strings.Split(os.Getenv("VERIF_EXCLUDE"), ",") {
			if s = strings.TrimSpace(s); s != "" {
				exclSet[s] = true
			}
		}
	})
	if exclSet[f] {
		exclMu.Lock()
		exclCnt[f]++
		exclMu.Unlock()
		return true
	}
	return false
}

// ExcludedCounts returns how many draws were diverted per excluded feature.
func ExcludedCounts() map[string]int64 {
	exclMu.Lock()
	defer exclMu.Unlock()
	out := map[string]int64{}
	for k, v := range exclCnt {
		out[k] = v
	}
	return out
}

// ---- integers ----

var uintBoundaries = []uint64{
	0, 1, 2, 22, 23, 24, 25, 127, 128, 129, 255, 256, 257, 32767, 32768, 65535, 65536,
	1<<31 - 1, 1 << 31, 1<<32 - 1, 1 << 32, 1<<53 - 1, 1 << 53, 1<<53 + 1,
	1<<63 - 1, 1 << 63, 1<<63 + 1, math.MaxUint64 - 1, math.MaxUint64,
}

// bytes that are markers in UBJSON (and the CBOR break)
var markerBytes = []byte{'N', 'Z', 'T', 'F', 'i', 'U', 'I', 'l', 'L', 'd', 'D', 'H', 'C', 'S', '[', ']', '{', '}', '#', '$', 0xff}

// Uint64In draws from [0,max] with a bias to width boundaries.
func Uint64In(t *rapid.T, max uint64, label string) uint64 {
	w := rapid.IntRange(0, 10).Draw(t, label+"_w")
	switch {
	case w == 10:
		// a number whose leading payload byte (at some width) equals a marker of
		// the binary formats: raw payload must never be looked at as a marker
		m := uint64(rapid.SampledFrom(markerBytes).Draw(t, label+"_m"))
		v := m<<(8*uint(rapid.IntRange(0, 7).Draw(t, label+"_ms"))) | uint64(rapid.IntRange(0, 255).Draw(t, label+"_ml"))
		for v > max {
			v >>= 8
		}
		return v
	case w < 3:
		return rapid.Uint64Range(0, min64(max, 300)).Draw(t, label)
	case w < 8:
		b := rapid.SampledFrom(uintBoundaries).Draw(t, label+"_b")
		d := rapid.IntRange(-2, 2).Draw(t, label+"_d")
		v := b + uint64(int64(d))
		if d < 0 && b < uint64(-d) {
			v = b
		}
		if d > 0 && v < b {
			v = b
		}
		if v > max {
			v = max - (v % 3)
			if v > max {
				v = max
			}
		}
		return v
	default:
		return rapid.Uint64Range(0, max).Draw(t, label)
	}
}

func min64(a, b uint64) uint64 {
	if a < b {
		return a
	}
	return b
}

// Int64In draws from [lo,hi] (lo<=0<=hi) with a bias to width boundaries.
func Int64In(t *rapid.T, lo, hi int64, label string) int64 {
	neg := rapid.IntRange(0, 2).Draw(t, label+"_s") == 2 // 1/3 negative
	if neg && lo < 0 {
		// magnitude-1 in [0, -(lo+1)]
		m := Uint64In(t, uint64(-(lo + 1)), label+"_n")
		return -1 - int64(m)
	}
	return int64(Uint64In(t, uint64(hi), label+"_p"))
}

// ---- floats ----

var f64Specials = []uint64{
	0, 0x8000000000000000, // +0 -0
	0x7ff0000000000000, 0xfff0000000000000, // +Inf -Inf
	0x7ff8000000000000, 0x7ff8000000000001, 0xfff8000000000000, 0x7ff0000000000001, // NaNs (quiet, payload, negative, signalling)
	1, 0x000fffffffffffff, 0x0010000000000000, // subnormal min, max, normal min
	0x7fefffffffffffff, // max
	0x3ff0000000000000, // 1
	0x4340000000000000, // 2^53
	0x43e0000000000000, // 2^63
	0x43f0000000000000, // 2^64
}

var f64Values = []float64{1e20, 1e21, 1e22, 1e-4, 1e-5, 1e-6, 1e-7, 123456, 1234567, 0.1, 0.3, 5e-324, 1.7976931348623157e308, 100000, 1e6, 4.35, 2.5e-5, 9007199254740993, 3.14, -3.14, 7e9}

// decimalFloat draws a float from its decimal spelling: sign, 1..17 significant
// digits (1 digit = the "round" numbers 1e6, -2e21, 5e-324, ...), decimal
// exponent over the whole float64 range with a bias to the exponents at which
// the shortest formatting switches between plain and scientific notation.
func decimalFloat(t *rapid.T, label string) float64 {
	nd := rapid.SampledFrom([]int{1, 1, 1, 2, 3, 7, 16, 17}).Draw(t, label+"_nd")
	digits := make([]byte, nd)
	for i := range digits {
		lo := 0
		if i == 0 || i == nd-1 {
			lo = 1 // no leading/trailing zero: exactly nd significant digits
		}
		digits[i] = byte('0' + rapid.IntRange(lo, 9).Draw(t, label+"_d"))
	}
	var exp int
	if rapid.Bool().Draw(t, label+"_eb") {
		exp = rapid.SampledFrom([]int{-324, -323, -308, -307, -8, -7, -6, -5, -4, -3, -1, 0, 1, 5, 6, 7, 15, 16, 19, 20, 21, 22, 38, 39, 307, 308}).Draw(t, label+"_ex")
	} else {
		exp = rapid.IntRange(-330, 310).Draw(t, label+"_e")
	}
	sign := ""
	if rapid.Bool().Draw(t, label+"_neg") {
		sign = "-"
	}
	txt := sign + string(digits[:1]) + "." + string(digits[1:]) + "0e" + strconv.Itoa(exp)
	f, err := strconv.ParseFloat(txt, 64)
	if err != nil {
		// out of range: ParseFloat returns ±Inf with ErrRange; callers that want
		// finite values clear the exponent's top bit
		return f
	}
	return f
}

// Float64Bits draws float64 bit patterns incl. NaN payloads, ±Inf, ±0, subnormals.
func Float64Bits(t *rapid.T, finiteOnly bool, label string) uint64 {
	for {
		var b uint64
		w := rapid.IntRange(0, 12).Draw(t, label+"_w")
		switch {
		case w == 12:
			// leading payload byte equals a marker of the binary formats
			b = uint64(rapid.SampledFrom(markerBytes).Draw(t, label+"_m"))<<56 | rapid.Uint64Range(0, 1<<56-1).Draw(t, label+"_ml")
		case w < 2:
			b = math.Float64bits(float64(Int64In(t, math.MinInt64, math.MaxInt64, label+"_i")))
		case w < 4:
			b = rapid.SampledFrom(f64Specials).Draw(t, label+"_s")
		case w < 6:
			b = math.Float64bits(rapid.SampledFrom(f64Values).Draw(t, label+"_v"))
			if rapid.IntRange(0, 2).Draw(t, label+"_vs") == 0 {
				b ^= 1 << 63
			}
		case w < 8:
			b = math.Float64bits(rapid.Float64().Draw(t, label+"_f"))
		case w < 10:
			b = math.Float64bits(decimalFloat(t, label+"_dec"))
		default:
			b = rapid.Uint64().Draw(t, label+"_r")
		}
		f := math.Float64frombits(b)
		if finiteOnly && (math.IsNaN(f) || math.IsInf(f, 0)) {
			// construction, not rejection: clear the exponent's top bit
			b &^= 0x4000000000000000
		}
		return b
	}
}

var f32Specials = []uint32{
	0, 0x80000000, 0x7f800000, 0xff800000, 0x7fc00000, 0x7fc00001, 0xffc00000, 0x7f800001,
	1, 0x007fffff, 0x00800000, 0x7f7fffff, 0x3f800000, 0x4b800000, 0x5f000000,
}

// Float32Bits draws float32 bit patterns.
func Float32Bits(t *rapid.T, finiteOnly bool, label string) uint32 {
	var b uint32
	w := rapid.IntRange(0, 12).Draw(t, label+"_w")
	switch {
	case w == 12:
		// leading payload byte equals a marker of the binary formats
		b = uint32(rapid.SampledFrom(markerBytes).Draw(t, label+"_m"))<<24 | uint32(rapid.IntRange(0, 1<<24-1).Draw(t, label+"_ml"))
	case w < 2:
		b = math.Float32bits(float32(rapid.Int32().Draw(t, label+"_i")))
	case w < 4:
		b = rapid.SampledFrom(f32Specials).Draw(t, label+"_s")
	case w < 6:
		b = math.Float32bits(float32(rapid.SampledFrom(f64Values).Draw(t, label+"_v")))
		if rapid.IntRange(0, 2).Draw(t, label+"_vs") == 0 {
			b ^= 1 << 31
		}
	case w < 8:
		b = math.Float32bits(rapid.Float32().Draw(t, label+"_f"))
	case w < 10:
		// nearest float32 of a decimal-shaped number: prints with few digits as
		// a float32 (the encoders format float32 with 32-bit precision)
		b = math.Float32bits(float32(decimalFloat(t, label+"_dec")))
	default:
		b = rapid.Uint32().Draw(t, label+"_r")
	}
	f := math.Float32frombits(b)
	if finiteOnly && (f != f || math.IsInf(float64(f), 0)) {
		b &^= 0x40000000
	}
	return b
}

// ---- strings ----

var strPieces = [][]byte{
	[]byte("\""), []byte("\\"), []byte("/"), []byte("\n"), []byte("\r"), []byte("\t"), []byte("\b"), []byte("\f"),
	{0}, {1}, {0x1f}, {0x7f}, []byte("<"), []byte(">"), []byte("&"), []byte("'"),
	[]byte("\u2028"), []byte("\u2029"), []byte("\u00e9"), []byte("\u00df"), []byte("\u20ac"), []byte("\u0800"), []byte("\uffff"), []byte("\ufffd"),
	[]byte("\U0001f600"), []byte("\U00010000"), []byte("\U0010ffff"), []byte("\u00a0"), []byte("\u0085"), []byte("\u07ff"),
	[]byte("A"), []byte("\\n"), []byte("\\ud800"), []byte("\\u0041"), []byte("{"), []byte("}"), []byte("["), []byte("]"), []byte(","), []byte(":"), []byte(" "),
	[]byte("N"), []byte("Z"), []byte("#"), []byte("$"), []byte("S"), []byte("i"),
}

var strInvalidPieces = [][]byte{
	{0x80}, {0xbf}, {0xff}, {0xfe}, {0xc0, 0x80}, {0xc3}, {0xe2, 0x82}, {0xf0, 0x9f, 0x98},
	{0xed, 0xa0, 0x80}, {0xed, 0xbf, 0xbf}, {0xf4, 0x90, 0x80, 0x80}, {0xc1, 0xbf}, {0xe0, 0x80, 0x80},
}

// buffer boundaries, plus every length whose single length byte equals a UBJSON marker
// (a length byte arriving at the start of a chunk must not be read as a marker)
var strLens = []int{22, 23, 24, 25, 62, 63, 64, 65, 66, 91, 93, 123, 125, 127, 128, 255, 256, 257,
	'#', '$', 'C', 'D', 'F', 'H', 'I', 'L', 'N', 'S', 'T', 'U', 'Z', 'd', 'i', 'l', 256 + 'N', 256 + '}'}

// Str draws a byte string. validUTF8 restricts it to valid UTF-8.
func Str(t *rapid.T, validUTF8 bool, label string) []byte {
	w := rapid.IntRange(0, 19).Draw(t, label+"_w")
	switch {
	case w < 2:
		return []byte{}
	case w < 6:
		return []byte(rapid.StringMatching(`[a-z]{1,6}`).Draw(t, label+"_a"))
	case w < 16:
		n := rapid.IntRange(1, 8).Draw(t, label+"_n")
		var out []byte
		for i := 0; i < n; i++ {
			out = append(out, strPiece(t, validUTF8, label)...)
		}
		return out
	case w < 19:
		// a length straddling a buffer boundary, with a special piece somewhere
		target := rapid.SampledFrom(strLens).Draw(t, label+"_l")
		piece := strPiece(t, validUTF8, label)
		pos := rapid.IntRange(0, target).Draw(t, label+"_p")
		out := make([]byte, 0, target+len(piece))
		for i := 0; i < target; i++ {
			if i == pos {
				out = append(out, piece...)
			}
			out = append(out, byte('a'+i%26))
		}
		if pos == target {
			out = append(out, piece...)
		}
		if rapid.Bool().Draw(t, label+"_exact") && len(out) > target {
			// cut to exactly the target length when that keeps UTF-8 intact
			cut := out[:target]
			if !validUTF8 || validPrefix(cut) {
				out = cut
			}
		}
		return out
	default:
		target := rapid.SampledFrom([]int{1000, 4095, 4096, 4097, 65535, 65536}).Draw(t, label+"_L")
		out := make([]byte, target)
		for i := range out {
			out[i] = byte('A' + i%50)
		}
		return out
	}
}

func validPrefix(b []byte) bool {
	// valid UTF-8 check without importing unicode/utf8 twice
	return strings.ToValidUTF8(string(b), "") == string(b)
}

func strPiece(t *rapid.T, validUTF8 bool, label string) []byte {
	w := rapid.IntRange(0, 9).Draw(t, label+"_pw")
	switch {
	case w < 2:
		return []byte(rapid.StringMatching(`[a-zA-Z0-9]{1,4}`).Draw(t, label+"_pa"))
	case w < 7 || (validUTF8 && w < 9):
		return rapid.SampledFrom(strPieces).Draw(t, label+"_ps")
	case w < 9:
		return rapid.SampledFrom(strInvalidPieces).Draw(t, label+"_pi")
	default:
		if validUTF8 {
			return []byte(string(rapid.Rune().Draw(t, label+"_pr")))
		}
		return rapid.SliceOfN(rapid.Byte(), 1, 3).Draw(t, label+"_pb")
	}
}

var keyPool = [][]byte{[]byte("a"), []byte("b"), []byte("key"), []byte("A"), []byte("é"), []byte("a b"), []byte("")}

// Key draws an object key (empty, duplicate-prone, non-ASCII, arbitrary bytes).
func Key(t *rapid.T, validUTF8 bool, label string) []byte {
	w := rapid.IntRange(0, 9).Draw(t, label+"_kw")
	switch {
	case w == 9:
		// one- and two-byte keys over the whole byte range (valid mode: ASCII and
		// two-byte runes): short keys are what fast paths and tables are built for
		if validUTF8 {
			if rapid.Bool().Draw(t, label+"_k1a") {
				return []byte{byte(rapid.IntRange(0x20, 0x7e).Draw(t, label+"_k1"))}
			}
			return []byte(string(rune(rapid.IntRange(0x80, 0x7ff).Draw(t, label+"_k2r"))))
		}
		n := rapid.IntRange(1, 2).Draw(t, label+"_k1n")
		k := make([]byte, n)
		for i := range k {
			k[i] = rapid.Byte().Draw(t, label+"_k1")
		}
		return k
	case w < 5:
		if Excluded("empty_key") {
			return rapid.SampledFrom(keyPool[:6]).Draw(t, label+"_kp")
		}
		return rapid.SampledFrom(keyPool).Draw(t, label+"_kp")
	default:
		k := Str(t, validUTF8, label+"_ks")
		if len(k) > 300 {
			k = k[:300]
			if validUTF8 && !validPrefix(k) {
				k = []byte("long")
			}
		}
		if len(k) == 0 && Excluded("empty_key") {
			return []byte("e")
		}
		return k
	}
}

// TierThorough reports whether the thorough tier is running.
func TierThorough() bool { return os.Getenv("VERIF_TIER") == "thorough" }
