package gen

import (
	"math"

	structform "github.com/elastic/go-structform"
	"pgregory.net/rapid"

	"verif/harness/model"
)

// StreamCfg parameterises the well-formed event stream generator (DESIGN §3.2).
type StreamCfg struct {
	MaxDepth   int  // regular recursion depth (default 5)
	Budget     int  // soft cap on the number of events (default 120)
	Ext        bool // allow extended events (typed arrays/maps, bytes)
	Refs       bool // allow OnStringRef / OnKeyRef
	ValidUTF8  bool // strings and keys are valid UTF-8
	Finite     bool // floats are finite
	NoBigUint  bool // unsigned values stay <= MaxInt64
	Deep       bool // allow the occasional deep chain (depth 33..140)
	Container  bool // top-level value is a container
	NoDupKeys  bool // keys within one object are distinct
	NoTypedAnn bool // never announce a BaseType other than AnyType
	ExtHeavy   bool // over-weight extended events
	ExtOnly    bool // the value is a single extended event
}

type streamGen struct {
	cfg    StreamCfg
	budget int
	// feature flags observed while generating (for the non-trivial rule)
	Feat map[string]bool
}

// Stream draws a well-formed event stream describing exactly one value, and the
// set of generator features it used.
func Stream(t *rapid.T, cfg StreamCfg) ([]model.Ev, map[string]bool) {
	if cfg.MaxDepth == 0 {
		cfg.MaxDepth = 5
	}
	if cfg.MaxDepth < 0 {
		cfg.MaxDepth = 0 // scalars only
	}
	if cfg.Budget == 0 {
		cfg.Budget = 120
	}
	g := &streamGen{cfg: cfg, budget: cfg.Budget, Feat: map[string]bool{}}
	var out []model.Ev
	if cfg.Deep && rapid.IntRange(0, 39).Draw(t, "deepw") == 39 {
		g.Feat["deep"] = true
		g.deepChain(t, &out)
		return out, g.Feat
	}
	if cfg.ExtOnly {
		g.container(t, 0, &out, 2+rapid.IntRange(0, 1).Draw(t, "extk"))
		return out, g.Feat
	}
	if cfg.Container {
		g.container(t, 0, &out, rapid.IntRange(0, 3).Draw(t, "topc"))
	} else {
		g.value(t, 0, &out)
	}
	return out, g.Feat
}

func (g *streamGen) deepChain(t *rapid.T, out *[]model.Ev) {
	d := rapid.IntRange(31, 140).Draw(t, "deep")
	// every level may hold small siblings in front of and behind the deep child:
	// what an encoder or parser remembers about an outer level (first element?
	// array or object? how many still to come?) is needed again on the way out
	type lvl struct {
		obj  bool
		post int
	}
	var levels []lvl
	for i := 0; i < d; i++ {
		pre, post := 0, 0
		switch rapid.IntRange(0, 5).Draw(t, "dsib") {
		case 0:
			pre = 1
		case 1:
			post = 1
		case 2:
			pre, post = 1, 2
		}
		ann := -1
		if rapid.Bool().Draw(t, "dann") {
			ann = 1 + pre + post
		}
		obj := rapid.Bool().Draw(t, "dobj")
		if obj {
			*out = append(*out, model.Ev{K: model.KObjStart, L: ann})
			for j := 0; j < pre; j++ {
				*out = append(*out, model.Ev{K: model.KKey, S: []byte("p")}, model.Ev{K: model.KBool, B: true})
			}
			*out = append(*out, model.Ev{K: model.KKey, S: []byte("k")})
		} else {
			*out = append(*out, model.Ev{K: model.KArrStart, L: ann})
			for j := 0; j < pre; j++ {
				*out = append(*out, model.Ev{K: model.KBool, B: true})
			}
		}
		levels = append(levels, lvl{obj, post})
	}
	g.scalar(t, out, "")
	for i := len(levels) - 1; i >= 0; i-- {
		l := levels[i]
		for j := 0; j < l.post; j++ {
			if l.obj {
				*out = append(*out, model.Ev{K: model.KKey, S: []byte{'q', byte('0' + j)}})
			}
			*out = append(*out, model.Ev{K: model.KNil})
		}
		if l.obj {
			*out = append(*out, model.Ev{K: model.KObjEnd})
		} else {
			*out = append(*out, model.Ev{K: model.KArrEnd})
		}
	}
}

func (g *streamGen) value(t *rapid.T, depth int, out *[]model.Ev) {
	g.budget--
	if depth >= g.cfg.MaxDepth || g.budget <= 0 {
		g.scalar(t, out, "")
		return
	}
	w := rapid.IntRange(0, 99).Draw(t, "vw")
	switch {
	case w < 50:
		g.scalar(t, out, "")
	default:
		kind := (w - 50) / 13
		if g.cfg.ExtHeavy && kind < 2 && w%2 == 0 {
			kind += 2
		}
		g.container(t, depth, out, kind)
	}
}

// container kinds: 0 array, 1 object, 2 typed array event, 3 typed map event
func (g *streamGen) container(t *rapid.T, depth int, out *[]model.Ev, kind int) {
	if kind >= 2 && !g.cfg.Ext {
		kind -= 2
	}
	if depth > 0 {
		g.Feat["nested"] = true
	}
	switch kind {
	case 0:
		g.array(t, depth, out)
	case 1:
		g.object(t, depth, out)
	case 2:
		g.extArray(t, out)
	default:
		g.extObject(t, out)
	}
}

// sizeScalars draws the size of a container that holds scalars only: the
// length boundaries 127/128/255/256 must be reachable whatever the budget.
func (g *streamGen) sizeScalars(t *rapid.T) int {
	if rapid.IntRange(0, 24).Draw(t, "szbig") == 0 {
		n := rapid.SampledFrom([]int{127, 128, 129, 200, 255, 256, 257, 300}).Draw(t, "szbigv")
		g.budget -= n / 8
		return n
	}
	return g.size(t)
}

func (g *streamGen) size(t *rapid.T) int {
	w := rapid.IntRange(0, 19).Draw(t, "szw")
	var n int
	switch {
	case w < 3:
		n = 0
	case w < 17:
		n = rapid.IntRange(1, 6).Draw(t, "sz")
	case w < 19:
		n = rapid.IntRange(7, 30).Draw(t, "szm")
	default:
		n = rapid.SampledFrom([]int{23, 24, 25, 127, 128, 255, 256, 300}).Draw(t, "szl")
	}
	if n > g.budget {
		if g.budget < 0 {
			return 0
		}
		n = g.budget
	}
	return n
}

func (g *streamGen) array(t *rapid.T, depth int, out *[]model.Ev) {
	n := g.size(t)
	typed := rapid.IntRange(0, 3).Draw(t, "atyped") == 3
	start := model.Ev{K: model.KArrStart, L: -1}
	if rapid.Bool().Draw(t, "aann") {
		start.L = n
		g.Feat["announced"] = true
	}
	if typed {
		kind := g.scalarKind(t, true)
		if !g.cfg.NoTypedAnn && rapid.Bool().Draw(t, "abt") {
			start.T = uint8(model.BaseTypeOf(kind))
			g.Feat["basetype"] = true
		}
		*out = append(*out, start)
		for i := 0; i < n; i++ {
			g.budget--
			g.scalar(t, out, kind)
		}
	} else {
		*out = append(*out, start)
		for i := 0; i < n; i++ {
			g.value(t, depth+1, out)
		}
	}
	*out = append(*out, model.Ev{K: model.KArrEnd})
}

func (g *streamGen) key(t *rapid.T, seen map[string]bool) model.Ev {
	var k []byte
	for try := 0; ; try++ {
		k = Key(t, g.cfg.ValidUTF8, "key")
		if !g.cfg.NoDupKeys || !seen[string(k)] {
			break
		}
		if try >= 3 {
			// construct a fresh key deterministically
			k = append(k, []byte("#"+itoa(len(seen)))...)
			if !seen[string(k)] {
				break
			}
		}
	}
	if seen[string(k)] {
		g.Feat["dupkey"] = true
	}
	seen[string(k)] = true
	if len(k) == 0 {
		g.Feat["emptykey"] = true
	}
	if !isASCII(k) {
		g.Feat["nonascii"] = true
	}
	e := model.Ev{K: model.KKey, S: k}
	if g.cfg.Refs && rapid.IntRange(0, 2).Draw(t, "kref") == 2 {
		e.K = model.KKeyRef
		g.Feat["ref"] = true
	}
	return e
}

func itoa(i int) string {
	if i == 0 {
		return "0"
	}
	var b []byte
	for i > 0 {
		b = append([]byte{byte('0' + i%10)}, b...)
		i /= 10
	}
	return string(b)
}

func isASCII(b []byte) bool {
	for _, c := range b {
		if c >= 0x80 || c < 0x20 || c == '"' || c == '\\' {
			return false
		}
	}
	return true
}

func (g *streamGen) object(t *rapid.T, depth int, out *[]model.Ev) {
	n := g.size(t)
	typed := rapid.IntRange(0, 3).Draw(t, "otyped") == 3
	start := model.Ev{K: model.KObjStart, L: -1}
	if rapid.Bool().Draw(t, "oann") {
		start.L = n
		g.Feat["announced"] = true
	}
	kind := ""
	if typed {
		kind = g.scalarKind(t, true)
		if !g.cfg.NoTypedAnn && rapid.Bool().Draw(t, "obt") {
			start.T = uint8(model.BaseTypeOf(kind))
			g.Feat["basetype"] = true
		}
	}
	*out = append(*out, start)
	seen := map[string]bool{}
	for i := 0; i < n; i++ {
		*out = append(*out, g.key(t, seen))
		if typed {
			g.budget--
			g.scalar(t, out, kind)
		} else {
			g.value(t, depth+1, out)
		}
	}
	*out = append(*out, model.Ev{K: model.KObjEnd})
}

func (g *streamGen) extArray(t *rapid.T, out *[]model.Ev) {
	g.Feat["ext"] = true
	g.Feat["extarr"] = true
	n := g.sizeScalars(t)
	if n == 0 {
		g.Feat["extempty"] = true
	}
	if rapid.IntRange(0, 14).Draw(t, "ebytes") == 0 {
		b := rapid.SliceOfN(rapid.Byte(), n, n).Draw(t, "bytes")
		*out = append(*out, model.Ev{K: model.KBytes, S: b})
		return
	}
	kind := rapid.SampledFrom(model.ArrElemKinds).Draw(t, "ekind")
	e := model.Ev{K: "a:" + kind, E: make([]model.Ev, 0, n)}
	for i := 0; i < n; i++ {
		g.budget--
		g.scalar(t, &e.E, kind)
	}
	*out = append(*out, e)
}

func (g *streamGen) extObject(t *rapid.T, out *[]model.Ev) {
	g.Feat["ext"] = true
	g.Feat["extobj"] = true
	n := g.sizeScalars(t)
	if n == 0 {
		g.Feat["extempty"] = true
	}
	kind := rapid.SampledFrom(model.ObjElemKinds).Draw(t, "okind")
	e := model.Ev{K: "o:" + kind, E: make([]model.Ev, 0, n)}
	seen := map[string]bool{}
	saved := g.cfg.NoDupKeys
	g.cfg.NoDupKeys = true // a Go map cannot hold duplicates
	seenSan := map[string]bool{}
	for i := 0; i < n; i++ {
		k := g.key(t, seen)
		// keys that only differ in invalid UTF-8 bytes collide once JSON has
		// replaced those by U+FFFD; a Go map delivers them in random order, so
		// an order-independent comparison could not align them: keep the
		// sanitised forms distinct by construction
		if san := string(model.SanitizeUTF8(k.S)); seenSan[san] {
			k.S = append(append([]byte{}, k.S...), []byte("#"+itoa(i))...)
			seen[string(k.S)] = true
			seenSan[string(model.SanitizeUTF8(k.S))] = true
		} else {
			seenSan[san] = true
		}
		e.Keys = append(e.Keys, k.S)
		g.budget--
		g.scalar(t, &e.E, kind)
	}
	g.cfg.NoDupKeys = saved
	*out = append(*out, e)
}

var plainScalarKinds = []string{model.KNil, model.KBool, model.KStr, model.KI8, model.KI16, model.KI32, model.KI64, model.KInt, model.KByte, model.KU8, model.KU16, model.KU32, model.KU64, model.KUint, model.KF32, model.KF64}

func (g *streamGen) scalarKind(t *rapid.T, forTyped bool) string {
	k := rapid.SampledFrom(plainScalarKinds).Draw(t, "kind")
	return k
}

// scalar appends one scalar event of the given kind ("" = any kind).
func (g *streamGen) scalar(t *rapid.T, out *[]model.Ev, kind string) {
	if kind == "" {
		kind = g.scalarKind(t, false)
	}
	e := model.Ev{K: kind}
	maxU := uint64(math.MaxUint64)
	if g.cfg.NoBigUint {
		maxU = math.MaxInt64
	}
	switch kind {
	case model.KNil:
	case model.KBool:
		e.B = rapid.Bool().Draw(t, "b")
	case model.KStr:
		e.S = Str(t, g.cfg.ValidUTF8, "s")
		if !isASCII(e.S) {
			g.Feat["strspecial"] = true
		}
		if g.cfg.Refs && rapid.IntRange(0, 2).Draw(t, "sref") == 2 {
			e.K = model.KStrRef
			g.Feat["ref"] = true
		}
	case model.KI8:
		e.I = Int64In(t, math.MinInt8, math.MaxInt8, "i8")
	case model.KI16:
		e.I = Int64In(t, math.MinInt16, math.MaxInt16, "i16")
	case model.KI32:
		e.I = Int64In(t, math.MinInt32, math.MaxInt32, "i32")
	case model.KI64, model.KInt:
		e.I = Int64In(t, math.MinInt64, math.MaxInt64, "i64")
	case model.KByte, model.KU8:
		e.U = Uint64In(t, math.MaxUint8, "u8")
	case model.KU16:
		e.U = Uint64In(t, math.MaxUint16, "u16")
	case model.KU32:
		e.U = Uint64In(t, math.MaxUint32, "u32")
	case model.KU64, model.KUint:
		e.U = Uint64In(t, maxU, "u64")
		if e.U > math.MaxInt64 {
			g.Feat["biguint"] = true
		}
	case model.KF32:
		e.F = uint64(Float32Bits(t, g.cfg.Finite, "f32"))
		f := math.Float32frombits(uint32(e.F))
		if f != f || math.IsInf(float64(f), 0) {
			g.Feat["nonfinite"] = true
		}
		g.Feat["float"] = true
	case model.KF64:
		e.F = Float64Bits(t, g.cfg.Finite, "f64")
		f := math.Float64frombits(e.F)
		if f != f || math.IsInf(f, 0) {
			g.Feat["nonfinite"] = true
		}
		g.Feat["float"] = true
	}
	if isBoundaryInt(e) {
		g.Feat["boundaryint"] = true
	}
	*out = append(*out, e)
}

func isBoundaryInt(e model.Ev) bool {
	var m uint64
	switch e.K {
	case model.KI8, model.KI16, model.KI32, model.KI64, model.KInt:
		if e.I < 0 {
			m = uint64(-(e.I + 1))
		} else {
			m = uint64(e.I)
		}
	case model.KByte, model.KU8, model.KU16, model.KU32, model.KU64, model.KUint:
		m = e.U
	default:
		return false
	}
	for _, b := range uintBoundaries {
		if b >= 22 && (m+2 >= b && m <= b+2) {
			return true
		}
	}
	return false
}

var _ = structform.AnyType
