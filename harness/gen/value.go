package gen

import (
	"math"
	"math/big"

	"pgregory.net/rapid"

	"verif/harness/model"
	"verif/harness/ref"
)

// RapidChooser adapts a *rapid.T to ref.Chooser.
type RapidChooser struct{ T *rapid.T }

func (c RapidChooser) Choose(n int, label string) int {
	if n <= 1 {
		return 0
	}
	return rapid.IntRange(0, n-1).Draw(c.T, label)
}

// ValueCfg parameterises the value-tree generator used for foreign documents.
type ValueCfg struct {
	MaxDepth  int
	Budget    int
	ValidUTF8 bool
	// IntRange: "int64" (UBJSON), "cbor" ([-2^64, 2^64-1]), "json" (int64 ∪ uint64)
	IntRange string
	Floats32 bool // allow float32 leaves
	Finite   bool
	// Decimals: some strings are decimal number spellings (UBJSON 'H' candidates)
	Decimals   bool
	Container  bool // top-level is a container
	Deep       bool
	NoEmptyKey bool
}

type valueGen struct {
	cfg    ValueCfg
	budget int
}

// Value draws a value tree.
func Value(t *rapid.T, cfg ValueCfg) model.V {
	if cfg.MaxDepth == 0 {
		cfg.MaxDepth = 5
	}
	if cfg.Budget == 0 {
		cfg.Budget = 80
	}
	g := &valueGen{cfg: cfg, budget: cfg.Budget}
	if cfg.Deep && rapid.IntRange(0, 39).Draw(t, "vdeepw") == 39 {
		d := rapid.IntRange(31, 140).Draw(t, "vdeep")
		v := g.scalar(t)
		for i := 0; i < d; i++ {
			// small siblings in front of and behind the deep child
			pre, post := 0, 0
			switch rapid.IntRange(0, 5).Draw(t, "vdsib") {
			case 0:
				pre = 1
			case 1:
				post = 1
			case 2:
				pre, post = 1, 2
			}
			if rapid.Bool().Draw(t, "vdobj") {
				var ms []model.Member
				for j := 0; j < pre; j++ {
					ms = append(ms, model.Member{Key: []byte("p"), Val: model.Bool(true)})
				}
				ms = append(ms, model.Member{Key: []byte("k"), Val: v})
				for j := 0; j < post; j++ {
					ms = append(ms, model.Member{Key: []byte{'q', byte('0' + j)}, Val: model.Null()})
				}
				v = model.Obj(ms...)
			} else {
				var xs []model.V
				for j := 0; j < pre; j++ {
					xs = append(xs, model.Bool(true))
				}
				xs = append(xs, v)
				for j := 0; j < post; j++ {
					xs = append(xs, model.Null())
				}
				v = model.Arr(xs...)
			}
		}
		return v
	}
	if cfg.Container {
		return g.container(t, 0, rapid.Bool().Draw(t, "vtopobj"))
	}
	return g.value(t, 0)
}

func (g *valueGen) value(t *rapid.T, depth int) model.V {
	g.budget--
	if depth >= g.cfg.MaxDepth || g.budget <= 0 {
		return g.scalar(t)
	}
	w := rapid.IntRange(0, 99).Draw(t, "vvw")
	switch {
	case w < 55:
		return g.scalar(t)
	case w < 78:
		return g.container(t, depth, false)
	default:
		return g.container(t, depth, true)
	}
}

func (g *valueGen) size(t *rapid.T) int {
	w := rapid.IntRange(0, 19).Draw(t, "vszw")
	var n int
	switch {
	case w < 3:
		n = 0
	case w < 17:
		n = rapid.IntRange(1, 5).Draw(t, "vsz")
	case w < 19:
		n = rapid.IntRange(6, 30).Draw(t, "vszm")
	default:
		n = rapid.SampledFrom([]int{23, 24, 25, 127, 128, 255, 256, 300}).Draw(t, "vszl")
	}
	if n > g.budget {
		if g.budget < 0 {
			return 0
		}
		n = g.budget
	}
	return n
}

func (g *valueGen) container(t *rapid.T, depth int, obj bool) model.V {
	n := g.size(t)
	// homogeneous containers are what typed encodings need: draw them often
	homo := rapid.IntRange(0, 2).Draw(t, "vhomo") == 2
	var proto model.V
	if homo {
		if depth+1 < g.cfg.MaxDepth && rapid.IntRange(0, 3).Draw(t, "vhomoc") == 3 {
			proto = model.V{K: model.VArr}
			if rapid.Bool().Draw(t, "vhomoo") {
				proto = model.V{K: model.VObj}
			}
		} else {
			proto = g.scalar(t)
		}
	}
	elem := func() model.V {
		if !homo {
			return g.value(t, depth+1)
		}
		g.budget--
		switch proto.K {
		case model.VArr:
			return g.container(t, depth+1, false)
		case model.VObj:
			return g.container(t, depth+1, true)
		}
		return g.scalarLike(t, proto)
	}
	if !obj {
		v := model.V{K: model.VArr, A: make([]model.V, 0, n)}
		for i := 0; i < n; i++ {
			v.A = append(v.A, elem())
		}
		return v
	}
	v := model.V{K: model.VObj, O: make([]model.Member, 0, n)}
	for i := 0; i < n; i++ {
		k := Key(t, g.cfg.ValidUTF8, "vkey")
		if len(k) == 0 && g.cfg.NoEmptyKey {
			k = []byte("e")
		}
		v.O = append(v.O, model.Member{Key: k, Val: elem()})
	}
	return v
}

var two64 = new(big.Int).Lsh(big.NewInt(1), 64)

func (g *valueGen) intV(t *rapid.T) model.V {
	switch g.cfg.IntRange {
	case "cbor-supported":
		// the library's documented subset: [-2^63, 2^64-1]
		if rapid.IntRange(0, 2).Draw(t, "vineg") == 2 {
			return model.Int(-1 - int64(Uint64In(t, math.MaxInt64, "vinegm")))
		}
		return model.Uint(Uint64In(t, math.MaxUint64, "viu"))
	case "cbor":
		if rapid.IntRange(0, 2).Draw(t, "vineg") == 2 {
			m := Uint64In(t, math.MaxUint64, "vinegm")
			n := new(big.Int).SetUint64(m)
			n.Neg(n).Sub(n, big.NewInt(1))
			return model.BigInt(n)
		}
		return model.Uint(Uint64In(t, math.MaxUint64, "viu"))
	case "json":
		if rapid.IntRange(0, 3).Draw(t, "viu64") == 3 {
			return model.Uint(Uint64In(t, math.MaxUint64, "viu"))
		}
	}
	return model.Int(Int64In(t, math.MinInt64, math.MaxInt64, "vi"))
}

var decimalSamples = []string{"0", "-0", "1", "18446744073709551615", "18446744073709551616", "-9223372036854775809", "3.14", "1e400", "-1.5E-7", "123456789012345678901234567890", "0.1"}

func (g *valueGen) scalar(t *rapid.T) model.V {
	w := rapid.IntRange(0, 11).Draw(t, "vsw")
	switch {
	case w == 0:
		return model.Null()
	case w == 1:
		return model.Bool(rapid.Bool().Draw(t, "vb"))
	case w < 6:
		return g.intV(t)
	case w < 8:
		if g.cfg.Floats32 && rapid.Bool().Draw(t, "vf32") {
			return model.Float32Bits(Float32Bits(t, g.cfg.Finite, "vf32b"))
		}
		return model.Float64Bits(Float64Bits(t, g.cfg.Finite, "vf64b"))
	default:
		if g.cfg.Decimals && rapid.IntRange(0, 5).Draw(t, "vdec") == 5 {
			return model.Str([]byte(rapid.SampledFrom(decimalSamples).Draw(t, "vdecs")))
		}
		return model.Str(Str(t, g.cfg.ValidUTF8, "vs"))
	}
}

// scalarLike draws a scalar of the same kind (and float width) as proto.
func (g *valueGen) scalarLike(t *rapid.T, proto model.V) model.V {
	switch proto.K {
	case model.VNull:
		return model.Null()
	case model.VBool:
		if rapid.IntRange(0, 3).Draw(t, "vlb") == 0 {
			return model.Bool(!proto.B)
		}
		return model.Bool(proto.B)
	case model.VInt:
		// stay in a width class often, so that typed UBJSON markers apply
		switch rapid.IntRange(0, 3).Draw(t, "vliw") {
		case 0:
			return model.Int(Int64In(t, math.MinInt8, math.MaxInt8, "vli8"))
		case 1:
			return model.Int(Int64In(t, 0, math.MaxUint8, "vlu8"))
		case 2:
			return model.Int(Int64In(t, math.MinInt16, math.MaxInt16, "vli16"))
		}
		return g.intV(t)
	case model.VFloat:
		if proto.F32 {
			return model.Float32Bits(Float32Bits(t, g.cfg.Finite, "vlf32"))
		}
		return model.Float64Bits(Float64Bits(t, g.cfg.Finite, "vlf64"))
	default:
		if g.cfg.Decimals && rapid.IntRange(0, 3).Draw(t, "vldec") == 3 {
			return model.Str([]byte(rapid.SampledFrom(decimalSamples).Draw(t, "vldecs")))
		}
		return model.Str(Str(t, g.cfg.ValidUTF8, "vls"))
	}
}

// ---- chunkings ----

// Cuts draws a chunking of an n-byte document as sorted cut positions in
// [1,n-1] (DESIGN §3.4). spans aims some cuts inside multi-byte tokens.
func Cuts(t *rapid.T, n int, spans []ref.Span) []int {
	if n < 2 {
		return nil
	}
	mode := rapid.IntRange(0, 5).Draw(t, "cutmode")
	switch mode {
	case 0: // one cut
		return []int{rapid.IntRange(1, n-1).Draw(t, "cut1")}
	case 1: // every byte
		if n <= 4096 {
			out := make([]int, n-1)
			for i := range out {
				out[i] = i + 1
			}
			return out
		}
		fallthrough
	case 2, 3: // cuts aimed into token spans
		var out []int
		seen := map[int]bool{}
		var inner []ref.Span
		for _, s := range spans {
			if s.End-s.Start >= 2 && s.End <= n {
				inner = append(inner, s)
			}
		}
		k := rapid.IntRange(1, 6).Draw(t, "cutk")
		for i := 0; i < k; i++ {
			var c int
			if len(inner) > 0 && rapid.IntRange(0, 3).Draw(t, "cutaim") > 0 {
				s := inner[rapid.IntRange(0, len(inner)-1).Draw(t, "cutspan")]
				c = rapid.IntRange(s.Start+1, s.End-1).Draw(t, "cutin")
			} else {
				c = rapid.IntRange(1, n-1).Draw(t, "cutany")
			}
			if c >= 1 && c <= n-1 && !seen[c] {
				seen[c] = true
				out = append(out, c)
			}
		}
		sortInts(out)
		return out
	default: // random subset via chunk sizes
		var out []int
		pos := 0
		for {
			step := rapid.IntRange(1, 9).Draw(t, "cutstep")
			if rapid.IntRange(0, 9).Draw(t, "cutbig") == 9 {
				step += rapid.IntRange(10, 200).Draw(t, "cutbigstep")
			}
			pos += step
			if pos >= n {
				return out
			}
			out = append(out, pos)
		}
	}
}

func sortInts(a []int) {
	for i := 1; i < len(a); i++ {
		for j := i; j > 0 && a[j] < a[j-1]; j-- {
			a[j], a[j-1] = a[j-1], a[j]
		}
	}
}

// Split cuts b at the given positions.
func Split(b []byte, cuts []int) [][]byte {
	var out [][]byte
	prev := 0
	for _, c := range cuts {
		if c <= prev || c >= len(b) {
			continue
		}
		out = append(out, b[prev:c])
		prev = c
	}
	return append(out, b[prev:])
}

// CutsSplitToken reports whether any cut falls strictly inside a token span.
func CutsSplitToken(cuts []int, spans []ref.Span) bool {
	for _, c := range cuts {
		for _, s := range spans {
			if c > s.Start && c < s.End {
				return true
			}
		}
	}
	return false
}
