package props

import (
	"bytes"
	"fmt"
	"reflect"
	"runtime"

	structform "github.com/elastic/go-structform"
	"github.com/elastic/go-structform/gotype"
	"pgregory.net/rapid"

	"verif/harness/gen"
	"verif/harness/gomodel"
	"verif/harness/model"
)

// C15 — stored values never alias transient buffers; unsafe conversions stay
// valid; results do not depend on when the garbage collector runs.

type C15Case struct {
	Mode    string       `json:"mode"` // unfold | fold
	Format  string       `json:"format"`
	Target  string       `json:"target,omitempty"` // iface | map_string | slice_string | struct
	Docs    [][]model.Ev `json:"docs,omitempty"`
	Cuts    [][]int      `json:"cuts,omitempty"`
	Decoder bool         `json:"decoder,omitempty"`
	BufSize int          `json:"bufsize,omitempty"`
	Cache   int          `json:"cache"`           // key cache capacity, -1 = off
	GCAt    []int        `json:"gc_at,omitempty"` // global event indices at which a GC is forced
	Go      *GoCase      `json:"go,omitempty"`    // fold mode
	// Finish: how the last chunk of every document reaches the push parser:
	// "" = Write, "parse" = Parser.Parse(chunk) from a scratch buffer that is
	// overwritten afterwards, "parsestring" = Parser.ParseString(string(chunk))
	Finish string `json:"finish,omitempty"`
}

func newGCVisitor(v structform.Visitor, at []int) structform.Visitor {
	if len(at) == 0 {
		return v
	}
	m := map[int]bool{}
	for _, i := range at {
		m[i] = true
	}
	ev := structform.EnsureExtVisitor(v)
	return &gcWrap{ExtVisitor: ev, inner: ev, at: m}
}

// gcWrap embeds the ExtVisitor: extended (typed array/map) calls are promoted
// and reach the consumer natively; the basic events below tick the GC schedule.
type gcWrap struct {
	structform.ExtVisitor
	inner structform.ExtVisitor
	at    map[int]bool
	n     int
}

func (g *gcWrap) tick() {
	if g.at[g.n] {
		runtime.GC()
	}
	g.n++
}

func (g *gcWrap) OnObjectStart(l int, bt structform.BaseType) error {
	g.tick()
	return g.inner.OnObjectStart(l, bt)
}
func (g *gcWrap) OnObjectFinished() error { g.tick(); return g.inner.OnObjectFinished() }
func (g *gcWrap) OnKey(s string) error    { g.tick(); return g.inner.OnKey(s) }
func (g *gcWrap) OnKeyRef(s []byte) error { g.tick(); return g.inner.OnKeyRef(s) }
func (g *gcWrap) OnArrayStart(l int, bt structform.BaseType) error {
	g.tick()
	return g.inner.OnArrayStart(l, bt)
}
func (g *gcWrap) OnArrayFinished() error     { g.tick(); return g.inner.OnArrayFinished() }
func (g *gcWrap) OnNil() error               { g.tick(); return g.inner.OnNil() }
func (g *gcWrap) OnBool(b bool) error        { g.tick(); return g.inner.OnBool(b) }
func (g *gcWrap) OnString(s string) error    { g.tick(); return g.inner.OnString(s) }
func (g *gcWrap) OnStringRef(s []byte) error { g.tick(); return g.inner.OnStringRef(s) }
func (g *gcWrap) OnInt8(i int8) error        { g.tick(); return g.inner.OnInt8(i) }
func (g *gcWrap) OnInt16(i int16) error      { g.tick(); return g.inner.OnInt16(i) }
func (g *gcWrap) OnInt32(i int32) error      { g.tick(); return g.inner.OnInt32(i) }
func (g *gcWrap) OnInt64(i int64) error      { g.tick(); return g.inner.OnInt64(i) }
func (g *gcWrap) OnInt(i int) error          { g.tick(); return g.inner.OnInt(i) }
func (g *gcWrap) OnByte(b byte) error        { g.tick(); return g.inner.OnByte(b) }
func (g *gcWrap) OnUint8(u uint8) error      { g.tick(); return g.inner.OnUint8(u) }
func (g *gcWrap) OnUint16(u uint16) error    { g.tick(); return g.inner.OnUint16(u) }
func (g *gcWrap) OnUint32(u uint32) error    { g.tick(); return g.inner.OnUint32(u) }
func (g *gcWrap) OnUint64(u uint64) error    { g.tick(); return g.inner.OnUint64(u) }
func (g *gcWrap) OnUint(u uint) error        { g.tick(); return g.inner.OnUint(u) }
func (g *gcWrap) OnFloat32(f float32) error  { g.tick(); return g.inner.OnFloat32(f) }
func (g *gcWrap) OnFloat64(f float64) error  { g.tick(); return g.inner.OnFloat64(f) }

func c15TargetType(name string) reflect.Type {
	str := reflect.TypeOf("")
	switch name {
	case "map_string":
		return reflect.TypeOf(map[string]string(nil))
	case "slice_string":
		return reflect.TypeOf([]string(nil))
	case "struct":
		return reflect.StructOf([]reflect.StructField{
			{Name: "A", Type: str},
			{Name: "B", Type: reflect.TypeOf([]string(nil))},
			{Name: "C", Type: reflect.TypeOf(map[string]string(nil))},
			{Name: "D", Type: reflect.TypeOf((*interface{})(nil)).Elem()},
			{Name: "E", Type: reflect.MapOf(str, reflect.StructOf([]reflect.StructField{{Name: "S", Type: str}}))},
		})
	}
	return reflect.TypeOf((*interface{})(nil)).Elem()
}

// c15Doc draws a string-heavy document for the target shape.
func c15Doc(t *rapid.T, target string, valid bool) []model.Ev {
	s := func(label string) model.Ev {
		k := model.KStr
		return model.Ev{K: k, S: gen.Str(t, valid, label)}
	}
	key := func(label string) model.Ev { return model.Ev{K: model.KKey, S: gen.Key(t, valid, label)} }
	strList := func() []model.Ev {
		n := rapid.IntRange(0, 4).Draw(t, "nl")
		out := []model.Ev{{K: model.KArrStart, L: n}}
		for i := 0; i < n; i++ {
			out = append(out, s("ls"))
		}
		return append(out, model.Ev{K: model.KArrEnd})
	}
	strMap := func() []model.Ev {
		n := rapid.IntRange(0, 4).Draw(t, "nm")
		out := []model.Ev{{K: model.KObjStart, L: -1}}
		for i := 0; i < n; i++ {
			out = append(out, key("mk"), s("ms"))
		}
		return append(out, model.Ev{K: model.KObjEnd})
	}
	switch target {
	case "map_string":
		return strMap()
	case "slice_string":
		return strList()
	case "struct":
		out := []model.Ev{{K: model.KObjStart, L: -1}, {K: model.KKey, S: []byte("a")}, s("a")}
		out = append(out, model.Ev{K: model.KKey, S: []byte("b")})
		out = append(out, strList()...)
		out = append(out, model.Ev{K: model.KKey, S: []byte("c")})
		out = append(out, strMap()...)
		out = append(out, model.Ev{K: model.KKey, S: []byte("d")})
		out = append(out, strMap()...)
		out = append(out, model.Ev{K: model.KKey, S: []byte("unknown")}, s("skipped"))
		n := rapid.IntRange(0, 3).Draw(t, "ne")
		out = append(out, model.Ev{K: model.KKey, S: []byte("e")}, model.Ev{K: model.KObjStart, L: n})
		for i := 0; i < n; i++ {
			out = append(out, key("ek"), model.Ev{K: model.KObjStart, L: 1}, model.Ev{K: model.KKey, S: []byte("s")}, s("es"), model.Ev{K: model.KObjEnd})
		}
		out = append(out, model.Ev{K: model.KObjEnd}, model.Ev{K: model.KObjEnd})
		return out
	}
	evs, _ := gen.Stream(t, gen.StreamCfg{Container: true, ValidUTF8: valid, Finite: true, NoBigUint: true, Budget: 30})
	return evs
}

func checkC15(ci any, info *CaseInfo) string {
	c := ci.(*C15Case)
	info.Class("mode:" + c.Mode)
	info.Class("format:" + c.Format)
	cd := codecs[c.Format]
	if c.Mode == "direct" {
		// Fold straight into an Unfolder: folders that report strings and keys by
		// reference from a reused, overwritten buffer (directly, as slice/map
		// elements, and inlined — behind the library's object-expecting visitor)
		typ, rv, err := c.Go.build()
		if err != nil {
			return err.Error()
		}
		info.NonTrivial = true
		target := reflect.New(typ)
		u, uerr := newUnfolder(target.Interface())
		if uerr != nil {
			return "harness: " + uerr.Error()
		}
		o := foldTo(rv, newGCVisitor(u, c.GCAt))
		if o.Panicked() || o.Err != nil {
			return fmt.Sprintf("Fold -> Unfold of %s: %v", describeGo(c.Go, rv), o)
		}
		runtime.GC()
		want, e1 := gomodel.FoldModel(rv)
		got, e2 := gomodel.FoldModel(target.Elem())
		if e1 != nil || e2 != nil {
			return fmt.Sprintf("harness: model: %v %v", e1, e2)
		}
		if d := model.Diff(want, got, model.Rules{AnyNaN: true}); d != "" {
			return fmt.Sprintf("Fold -> Unfold of %s: the stored value differs after the folder's buffers were overwritten: %s\n  got %+v", describeGo(c.Go, rv), d, safeInterface(target.Elem()))
		}
		return ""
	}
	if c.Mode == "fold" {
		_, rv, err := c.Go.build()
		if err != nil {
			return err.Error()
		}
		plain, po := func() ([]byte, Outcome) {
			var buf bytes.Buffer
			o := foldTo(rv, cd.NewVisitor(&buf, EncOpts{IgnoreInvalidFloat: true}))
			return buf.Bytes(), o
		}()
		var buf bytes.Buffer
		o := foldTo(rv, newGCVisitor(cd.NewVisitor(&buf, EncOpts{IgnoreInvalidFloat: true}), c.GCAt))
		info.NonTrivial = len(c.GCAt) > 0
		if o.Panicked() || po.Panicked() || o.Class() != po.Class() {
			return fmt.Sprintf("fold -> %s encoder: with GC at events %v: %v, without: %v (%s)", c.Format, c.GCAt, o, po, describeGo(c.Go, rv))
		}
		if o.Err != nil {
			return ""
		}
		// the events themselves (GC running between them) against the documented
		// mapping: an invalid pointer conversion shows as a wrong value even
		// when both runs agree with each other
		if exp, merr := gomodel.FoldModel(rv); merr == nil {
			rec := &model.Recorder{}
			ro := foldTo(rv, newGCVisitor(rec, c.GCAt))
			if ro.Panicked() || ro.Err != nil {
				return fmt.Sprintf("fold with GC at events %v: %v, into the %s encoder: %v (%s)", c.GCAt, ro, c.Format, o, describeGo(c.Go, rv))
			}
			if got, terr := model.Tree(rec.Evs); terr != nil {
				return fmt.Sprintf("fold with GC at events %v emits a malformed stream: %v (%s)", c.GCAt, terr, describeGo(c.Go, rv))
			} else if d := model.Diff(exp, got, model.Rules{AnyNaN: true}); d != "" {
				return fmt.Sprintf("fold with GC at events %v emits another value than the documented mapping: %s (%s)\n  model: %v\n  fold:  %v", c.GCAt, d, describeGo(c.Go, rv), exp, got)
			}
		}
		if !bytes.Equal(buf.Bytes(), plain) {
			va, e1 := refDecodeOne(c.Format, buf.Bytes())
			vb, e2 := refDecodeOne(c.Format, plain)
			if e1 != nil || e2 != nil || model.Diff(vb, va, model.Rules{AllUnordered: true}) != "" {
				return fmt.Sprintf("fold -> %s encoder: output with GC at events %v is %q, without GC %q (%s)", c.Format, c.GCAt, trunc(buf.Bytes()), trunc(plain), describeGo(c.Go, rv))
			}
		}
		return ""
	}

	typ := c15TargetType(c.Target)
	info.Class("target:" + c.Target)
	if c.Decoder {
		info.Class("pull_decoder")
	}
	// encode every document
	var datas [][]byte
	for i, evs := range c.Docs {
		d, eo := encodeStream(cd, EncOpts{}, evs)
		if eo.Panicked() || eo.Err != nil {
			return fmt.Sprintf("harness: document #%d cannot be encoded: %v", i, eo)
		}
		datas = append(datas, d)
	}
	u, err := gotype.NewUnfolder(nil)
	if err != nil {
		return err.Error()
	}
	if c.Cache >= 0 {
		u.EnableKeyCache(c.Cache)
	}
	sink := newGCVisitor(u, c.GCAt)
	var (
		p   pushParser
		dec pullDecoder
	)
	splitToken := false
	if c.Decoder {
		var stream []byte
		var cuts []int
		off := 0
		for i, d := range datas {
			if i < len(c.Cuts) {
				for _, x := range c.Cuts[i] {
					if x > 0 && x < len(d) {
						cuts = append(cuts, off+x)
						splitToken = true
					}
				}
			}
			stream = append(stream, d...)
			off += len(d)
			if c.Format == "json" {
				stream = append(stream, ' ')
				off++
			}
		}
		bs := c.BufSize
		if bs <= 0 {
			bs = 16
		}
		dec = cd.NewDecoder(&chunkReader{chunks: cloneChunks(gen.Split(stream, cuts))}, bs, sink)
		splitToken = splitToken || bs < len(stream)
	} else {
		p = cd.NewParser(sink)
	}
	type res struct {
		target reflect.Value
		snap   model.V
	}
	var results []res
	for i, d := range datas {
		target := reflect.New(typ)
		var cuts []int
		if i < len(c.Cuts) {
			cuts = c.Cuts[i]
			for _, x := range cuts {
				if x > 0 && x < len(d) {
					splitToken = true
				}
			}
		}
		o := guard(func() error {
			if err := u.SetTarget(target.Interface()); err != nil {
				return err
			}
			if c.Decoder {
				return dec.Next()
			}
			return scribbleFeedFinish(p, d, cuts, c.Finish)
		})
		// control: plain one-shot parse into a fresh unfolder from an untouched buffer
		control := reflect.New(typ)
		co := guard(func() error {
			fu, err := gotype.NewUnfolder(control.Interface())
			if err != nil {
				return err
			}
			return cd.Parse(append([]byte{}, d...), fu)
		})
		desc := fmt.Sprintf("%s, target %s, document #%d %q, cuts %v, decoder=%v buf=%d cache=%d gc=%v", c.Format, c.Target, i, trunc(d), cuts, c.Decoder, c.BufSize, c.Cache, c.GCAt)
		if o.Panicked() || co.Panicked() || o.Class() != co.Class() {
			return fmt.Sprintf("%s: reused scribbled pipeline: %v, control: %v", desc, o, co)
		}
		if o.Err != nil {
			return fmt.Sprintf("harness: %s: both fail: %v", desc, o.Err)
		}
		if dd := gomodel.GoEqual(control.Elem(), target.Elem(), true); dd != "" {
			return fmt.Sprintf("%s: the value unfolded while every input buffer is overwritten after use differs from the control: %s\n  got     %+v\n  control %+v", desc, dd, safeInterface(target.Elem()), safeInterface(control.Elem()))
		}
		snap, err := gomodel.FoldModel(target.Elem())
		if err != nil {
			return "harness: " + err.Error()
		}
		results = append(results, res{target, snap})
	}
	runtime.GC()
	runtime.GC()
	for i, r := range results {
		now, err := gomodel.FoldModel(r.target.Elem())
		if err != nil {
			return "harness: " + err.Error()
		}
		if dd := model.Diff(r.snap, now, model.Rules{AllUnordered: true}); dd != "" {
			return fmt.Sprintf("%s, target %s: the value stored from document #%d changed after later documents went through the same parser/unfolder and buffers were overwritten: %s (now %+v)", c.Format, c.Target, i, dd, safeInterface(r.target.Elem()))
		}
	}
	info.NonTrivial = splitToken || len(datas) > 1
	return ""
}

func drawC15(t *rapid.T) any {
	c := &C15Case{Format: rapid.SampledFrom(formatNames).Draw(t, "format"), Cache: -1}
	if rapid.IntRange(0, 5).Draw(t, "mode") == 5 {
		c.Mode = "fold"
		c.Go = drawGoCase(t, gomodel.TypeCfg{Tags: true, Pool: true, FoldOnly: true, Arrays: true}, gomodel.ValCfg{Budget: 30, ValidUTF8: c.Format == "json"})
		n := rapid.IntRange(1, 4).Draw(t, "ngc")
		for i := 0; i < n; i++ {
			c.GCAt = append(c.GCAt, rapid.IntRange(0, 40).Draw(t, "gcat"))
		}
		return c
	}
	if rapid.IntRange(0, 9).Draw(t, "direct") == 0 {
		c.Mode = "direct"
		f := gomodel.TypeDesc{Kind: "pool", Pool: "FRefObj"}
		inl := rapid.SampledFrom([]string{`struct:",inline"`, `struct:",squash"`, ``, `struct:"f,omitempty"`}).Draw(t, "dtag")
		td := gomodel.TypeDesc{Kind: "struct", Fields: []gomodel.FieldDesc{
			{Name: "A", Type: gomodel.TypeDesc{Kind: "string"}},
			{Name: "F", Tag: inl, Type: f},
			{Name: "G", Type: gomodel.TypeDesc{Kind: "slice", Elem: &f}},
			{Name: "M", Type: gomodel.TypeDesc{Kind: "map", Elem: &f}},
			{Name: "P", Type: gomodel.TypeDesc{Kind: "ptr", Elem: &f}},
			{Name: "I", Type: gomodel.TypeDesc{Kind: "iface"}},
		}}
		typ, err := gomodel.Build(&td)
		if err != nil {
			t.Fatalf("harness: %v", err)
		}
		c.Go = &GoCase{Type: td, Val: gomodel.DrawValue(t, typ, gomodel.ValCfg{Budget: 30})}
		if rapid.Bool().Draw(t, "dgc") {
			c.GCAt = []int{rapid.IntRange(0, 20).Draw(t, "dgcat")}
		}
		return c
	}
	c.Mode = "unfold"
	c.Target = rapid.SampledFrom([]string{"iface", "map_string", "slice_string", "struct"}).Draw(t, "target")
	nd := rapid.IntRange(1, 4).Draw(t, "ndocs")
	for i := 0; i < nd; i++ {
		c.Docs = append(c.Docs, c15Doc(t, c.Target, c.Format == "json"))
		var cuts []int
		if rapid.IntRange(0, 3).Draw(t, "chunk") > 0 {
			n := rapid.IntRange(1, 6).Draw(t, "ncuts")
			for j := 0; j < n; j++ {
				cuts = append(cuts, rapid.IntRange(1, 120).Draw(t, "cut"))
			}
			sortInts(cuts)
			cuts = dedupInts(cuts)
		}
		c.Cuts = append(c.Cuts, cuts)
	}
	c.Decoder = rapid.IntRange(0, 3).Draw(t, "decoder") == 3
	if !c.Decoder && c.Format != "json" {
		// (json's Parser.Parse starts a new document; the binary parsers' Parse
		// continues what Write began and signals the end of the input)
		c.Finish = rapid.SampledFrom([]string{"", "", "parse", "parsestring"}).Draw(t, "finish")
	}
	if c.Decoder {
		c.BufSize = rapid.SampledFrom([]int{1, 2, 5, 16, 64, 256}).Draw(t, "bufsize")
	}
	if rapid.Bool().Draw(t, "cache") {
		c.Cache = rapid.SampledFrom([]int{0, 1, 2, 4, 16}).Draw(t, "cachecap")
	}
	if rapid.IntRange(0, 3).Draw(t, "gc") == 3 {
		n := rapid.IntRange(1, 3).Draw(t, "ngc")
		for i := 0; i < n; i++ {
			c.GCAt = append(c.GCAt, rapid.IntRange(0, 60).Draw(t, "gcat"))
		}
	}
	return c
}

func init() {
	register(&Property{
		ID:    "C15",
		Rule:  "histories of 1..4 string-heavy documents (strings/keys with lengths straddling the parsers' 64-byte scratch buffers, escapes, multi-byte runes) encoded with the library encoders and pushed through ONE parser (Write from a scratch buffer that is overwritten right after each Write, generated chunkings; the last chunk of a cborl/ubjson document by Write, Parse or ParseString) or ONE pull decoder (reader schedules, buffer sizes 1..256) into ONE unfolder (SetTarget per document; with/without key cache) with targets interface{}, map[string]string, []string and a reflect-built struct with string, []string, map[string]string, interface{} and map[string]struct fields, optionally with forced GCs at drawn event boundaries; oracle = each result equals a control run (one-shot Parse of an untouched copy into a fresh unfolder) and still equals its snapshot after all later documents, buffer overwrites and two forced GCs; fold mode (generated fold-side types incl. registered and implemented folders reached through fields, elements and pointers): Fold -> encoder output is the same with GCs forced at drawn events, and the events emitted with those GCs equal the documented mapping (fold model); direct mode: Fold straight into an Unfolder for values whose folder (FRefObj — as field, inlined field, slice element, map value, pointer) reports keys and strings by reference from a scratch buffer it overwrites after every call: the stored value must equal the folded one. non-trivial = a chunk boundary inside a document, or more than one document through the same parser/unfolder; distinct by case hash. The thorough tier repeats the search with the -race build (checkptr instrumentation of unsafe conversions)",
		New:   func() any { return &C15Case{} },
		Draw:  drawC15,
		Check: checkC15,
	})
}
