// Package props holds one executable check per property C01…C20. Every
// property is a pure function over a JSON-serialisable Case; rapid only draws
// the Case (DESIGN.md §2.2).
package props

import (
	"encoding/binary"
	"encoding/json"
	"fmt"
	"hash/fnv"
	"os"
	"runtime"
	"runtime/debug"
	"sort"
	"strconv"
	"sync"
	"sync/atomic"
	"time"

	"pgregory.net/rapid"

	"verif/harness/gen"
)

// CaseInfo is filled in by a check: whether the case was non-trivial by the
// property's stated rule and which classes it belongs to.
type CaseInfo struct {
	NonTrivial bool
	Classes    []string
}

func (ci *CaseInfo) Class(c string) { ci.Classes = append(ci.Classes, c) }

// Property is one registered check.
type Property struct {
	ID    string
	Rule  string                           // generation + non-trivial rule, for the evidence file
	New   func() any                       // pointer to an empty Case
	Draw  func(t *rapid.T) any             // draws a Case (pointer)
	Check func(c any, ci *CaseInfo) string // "" = the property held on this case
	Enum  func(emit func(c any) bool)      // optional deterministic enumeration; emit returns false to stop
	// AlwaysCurCase: write the case to $VERIF_CURCASE before executing it (for
	// properties whose failures can kill the process outright).
	AlwaysCurCase bool
}

var registry = map[string]*Property{}

func register(p *Property) { registry[p.ID] = p }

// ---- statistics ----

type propStats struct {
	Evaluations int64             `json:"evaluations"`
	NonTrivial  int64             `json:"nontrivial_executions"`
	Classes     map[string]int64  `json:"classes"`
	Samples     []json.RawMessage `json:"samples"`
	Failures    int64             `json:"failures"`
	hashes      map[uint64]struct{}
}

var (
	statsMu sync.Mutex
	stats   = map[string]*propStats{}
)

func statsFor(id string) *propStats {
	s := stats[id]
	if s == nil {
		s = &propStats{Classes: map[string]int64{}, hashes: map[uint64]struct{}{}}
		stats[id] = s
	}
	return s
}

func isPow2(n int64) bool { return n > 0 && n&(n-1) == 0 }

func recordCase(id string, c any, ci *CaseInfo, failed bool) {
	statsMu.Lock()
	defer statsMu.Unlock()
	s := statsFor(id)
	s.Evaluations++
	if failed {
		s.Failures++
	}
	for _, cl := range ci.Classes {
		s.Classes[cl]++
	}
	if !ci.NonTrivial {
		return
	}
	s.NonTrivial++
	b, err := json.Marshal(c)
	if err != nil {
		return
	}
	h := fnv.New64a()
	h.Write(b)
	s.hashes[h.Sum64()] = struct{}{}
	// deterministic sampling: the first two non-trivial cases and every
	// power-of-two-th one, small enough to read
	if (s.NonTrivial <= 2 || isPow2(s.NonTrivial)) && len(b) <= 3000 && len(s.Samples) < 24 {
		s.Samples = append(s.Samples, json.RawMessage(b))
	}
}

func writeStats() {
	path := os.Getenv("VERIF_STATS")
	if path == "" {
		return
	}
	statsMu.Lock()
	defer statsMu.Unlock()
	out := map[string]any{}
	for id, s := range stats {
		hs := make([]uint64, 0, len(s.hashes))
		for h := range s.hashes {
			hs = append(hs, h)
		}
		sort.Slice(hs, func(i, j int) bool { return hs[i] < hs[j] })
		buf := make([]byte, 8*len(hs))
		for i, h := range hs {
			binary.LittleEndian.PutUint64(buf[8*i:], h)
		}
		hpath := path + "." + id + ".h64"
		_ = os.WriteFile(hpath, buf, 0o644)
		out[id] = map[string]any{
			"evaluations":           s.Evaluations,
			"nontrivial_executions": s.NonTrivial,
			"distinct_nontrivial":   len(hs),
			"classes":               s.Classes,
			"samples":               s.Samples,
			"failures":              s.Failures,
			"hashes_file":           hpath,
			"rule":                  ruleOf(id),
		}
	}
	out["_excluded"] = gen.ExcludedCounts()
	b, _ := json.MarshalIndent(out, "", " ")
	_ = os.WriteFile(path, b, 0o644)
}

// ---- case files ----

type caseFile struct {
	Property string          `json:"property"`
	Case     json.RawMessage `json:"case"`
	Message  string          `json:"message,omitempty"`
	Source   string          `json:"source,omitempty"`
	Seed     string          `json:"seed,omitempty"`
	Tier     string          `json:"tier,omitempty"`
}

func writeCaseFile(path, id string, c any, msg, source string) {
	if path == "" {
		return
	}
	b, err := json.Marshal(c)
	if err != nil {
		b = []byte(`"unmarshalable case"`)
	}
	cf := caseFile{Property: id, Case: b, Message: msg, Source: source, Seed: os.Getenv("VERIF_SEED"), Tier: os.Getenv("VERIF_TIER")}
	out, _ := json.MarshalIndent(cf, "", " ")
	tmp := path + ".tmp"
	if os.WriteFile(tmp, out, 0o644) == nil {
		_ = os.Rename(tmp, path)
	}
}

func loadCaseFile(path string) (*Property, any, *caseFile, error) {
	b, err := os.ReadFile(path)
	if err != nil {
		return nil, nil, nil, err
	}
	var cf caseFile
	if err := json.Unmarshal(b, &cf); err != nil {
		return nil, nil, nil, fmt.Errorf("%s: %v", path, err)
	}
	p := registry[cf.Property]
	if p == nil {
		return nil, nil, &cf, fmt.Errorf("%s: unknown property %q", path, cf.Property)
	}
	c := p.New()
	if err := json.Unmarshal(cf.Case, c); err != nil {
		return nil, nil, &cf, fmt.Errorf("%s: case does not decode: %v", path, err)
	}
	return p, c, &cf, nil
}

// ---- guarded execution, watchdog ----

type current struct {
	id     string
	c      any
	start  int64 // unix nanos
	source string
}

var cur atomic.Pointer[current]

const (
	exitHang = 3
	exitMem  = 4
)

func hangLimit() time.Duration {
	if s := os.Getenv("VERIF_HANG_S"); s != "" {
		if n, err := strconv.Atoi(s); err == nil && n > 0 {
			return time.Duration(n) * time.Second
		}
	}
	return 10 * time.Second
}

func startWatchdog() {
	limit := hangLimit()
	memLimit := uint64(6 << 30)
	if s := os.Getenv("VERIF_RSS_MB"); s != "" {
		if n, err := strconv.Atoi(s); err == nil && n > 0 {
			memLimit = uint64(n) << 20
		}
	}
	go func() {
		for {
			time.Sleep(250 * time.Millisecond)
			c := cur.Load()
			if c == nil {
				continue
			}
			if time.Since(time.Unix(0, c.start)) > limit {
				writeCaseFile(os.Getenv("VERIF_CURCASE"), c.id, c.c, fmt.Sprintf("hang: a guarded call did not return within %v", limit), c.source)
				fmt.Fprintf(os.Stderr, "WATCHDOG: hang in %s\n", c.id)
				writeStats()
				os.Exit(exitHang)
			}
			if rss := residentBytes(); rss > memLimit {
				writeCaseFile(os.Getenv("VERIF_CURCASE"), c.id, c.c, fmt.Sprintf("memory: resident set %d MiB exceeds the limit", rss>>20), c.source)
				fmt.Fprintf(os.Stderr, "WATCHDOG: memory in %s\n", c.id)
				writeStats()
				os.Exit(exitMem)
			}
		}
	}()
}

func residentBytes() uint64 {
	b, err := os.ReadFile("/proc/self/statm")
	if err != nil {
		return 0
	}
	var size, res uint64
	fmt.Sscanf(string(b), "%d %d", &size, &res)
	return res * uint64(os.Getpagesize())
}

// execCase runs one case of a property with bookkeeping. source names where the
// case came from (rapid / enum / replay file).
func execCase(p *Property, c any, source string) (msg string) {
	if p.AlwaysCurCase || os.Getenv("VERIF_CURCASE_ALWAYS") == "1" {
		writeCaseFile(os.Getenv("VERIF_CURCASE"), p.ID, c, "", source)
	}
	cur.Store(&current{id: p.ID, c: c, start: time.Now().UnixNano(), source: source})
	ci := &CaseInfo{}
	func() {
		defer func() {
			if r := recover(); r != nil {
				msg = fmt.Sprintf("panic escaped the check: %v\n%s", r, trimStack(debug.Stack()))
			}
		}()
		msg = p.Check(c, ci)
	}()
	cur.Store(nil)
	recordCase(p.ID, c, ci, msg != "")
	if msg != "" {
		writeCaseFile(os.Getenv("VERIF_FAILCASE"), p.ID, c, msg, source)
	}
	return msg
}

func trimStack(b []byte) string {
	if len(b) > 2500 {
		b = b[:2500]
	}
	return string(b)
}

// Outcome of one guarded library call.
type Outcome struct {
	Err      error
	Panic    any
	Stack    string
	AllocB   uint64 // bytes allocated during the call (TotalAlloc delta)
	Measured bool
}

func (o Outcome) Panicked() bool { return o.Panic != nil }

func (o Outcome) Class() string {
	switch {
	case o.Panic != nil:
		return "panic"
	case o.Err != nil:
		return "reject"
	}
	return "accept"
}

func (o Outcome) String() string {
	switch {
	case o.Panic != nil:
		return fmt.Sprintf("panic(%v)", o.Panic)
	case o.Err != nil:
		return fmt.Sprintf("error(%v)", o.Err)
	}
	return "ok"
}

// guard runs f, converting a panic into an Outcome.
func guard(f func() error) (o Outcome) {
	defer func() {
		if r := recover(); r != nil {
			o.Panic = r
			o.Stack = trimStack(debug.Stack())
		}
	}()
	o.Err = f()
	return
}

// guardAlloc is guard plus the TotalAlloc delta of the call. Only meaningful in
// a single-goroutine process (the watchdog goroutine allocates nothing while
// idle).
func guardAlloc(f func() error) Outcome {
	var m0, m1 runtime.MemStats
	runtime.ReadMemStats(&m0)
	o := guard(f)
	runtime.ReadMemStats(&m1)
	o.AllocB = m1.TotalAlloc - m0.TotalAlloc
	o.Measured = true
	return o
}

func ruleOf(id string) string {
	if p := registry[id]; p != nil {
		return p.Rule
	}
	return ""
}

func genExcludedRecursive() bool { return gen.Excluded("gotype.recursive_types") }
