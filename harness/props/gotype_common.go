package props

import (
	"fmt"
	"math"
	"reflect"

	structform "github.com/elastic/go-structform"
	"github.com/elastic/go-structform/gotype"
	"pgregory.net/rapid"

	"verif/harness/gomodel"
	"verif/harness/model"
)

// GoCase is a generated Go type with a value of it.
type GoCase struct {
	Type  gomodel.TypeDesc `json:"type"`
	Val   gomodel.GoVal    `json:"val"`
	Route string           `json:"route,omitempty"` // direct | json | ubjson | cborl
	Note  string           `json:"note,omitempty"`
	// PreFail > 0 (C12): the value is folded TWICE by one iterator; during the
	// first fold the visitor fails at event PreFail-1 (whatever that fold
	// returns is C16's business), the second fold is the one that is judged
	PreFail int `json:"prefail,omitempty"`
}

func (c *GoCase) build() (reflect.Type, reflect.Value, error) {
	t, err := gomodel.Build(&c.Type)
	if err != nil {
		return nil, reflect.Value{}, err
	}
	rv, err := gomodel.Materialize(t, &c.Val)
	return t, rv, err
}

// foldOpts returns ONE option value for the whole process (as an application
// keeps it in a package variable); see gomodel.UnfoldOptions.
func foldOpts() []gotype.FoldOption {
	return []gotype.FoldOption{sharedFoldOpt}
}

var sharedFoldOpt = gomodel.SharedFoldOpt

// withSharedOpts decides (from the type alone) whether an instance for a type
// that does not need the shared option values gets them anyway: half of the
// types that use one of the "hostile" named types do, so that an option value
// polluted by another constructor call would show.
func withSharedOpts(t reflect.Type) bool {
	if t.Kind() == reflect.Ptr {
		t = t.Elem()
	}
	return usesHostile(t) && len(t.String())%2 == 0
}

// foldTo folds the value held in rv (addressable) into vis, passing it the way
// a user would: as an interface{} holding the value.
func foldTo(rv reflect.Value, vis structform.Visitor) Outcome {
	otherInstances(rv.Type())
	return guard(func() error {
		// the registered folder is only passed when the type needs it: most
		// users call Fold without options, and an iterator with options may take
		// other code paths than one without
		if !usesRegT(rv.Type(), 0, map[reflect.Type]bool{}) && !withSharedOpts(rv.Type()) {
			return gotype.Fold(rv.Interface(), vis)
		}
		if len(rv.Type().String())%3 != 0 {
			// the one-shot form with options — after ANOTHER one-shot call without
			// options has folded the same value (calls are independent: what one
			// compiled for its configuration must not reach the next)
			_ = gotype.Fold(rv.Interface(), discardVisitor{})
			return gotype.Fold(rv.Interface(), vis, foldOpts()...)
		}
		it, err := gotype.NewIterator(vis, foldOpts()...)
		if err != nil {
			return err
		}
		return it.Fold(rv.Interface())
	})
}

// foldAfterFailure folds rv twice with ONE iterator: the first time the visitor
// fails at event k, the second time it records. A failed document must not
// change what the iterator emits for the next one.
func foldAfterFailure(rv reflect.Value, rec *model.Recorder, k int) Outcome {
	otherInstances(rv.Type())
	return guard(func() error {
		it, err := gotype.NewIterator(rec, foldOpts()...)
		if err != nil {
			return err
		}
		rec.Hook = func(idx int, _ model.Ev) error {
			if idx >= k {
				return errVisitor
			}
			return nil
		}
		_ = it.Fold(rv.Interface())
		rec.Hook, rec.Evs, rec.N = nil, nil, 0
		return it.Fold(rv.Interface())
	})
}

// otherInstances lets ANOTHER iterator and ANOTHER unfolder — both configured
// with custom folders/unfolders that give the named scalar pool types a
// different meaning — compile the type first. Instances are independent:
// whatever they compiled for their own configuration must never reach the
// instance under test (the documented mapping and the assignment model know
// nothing about them). Only done for types that use one of those named types.
func otherInstances(t reflect.Type) {
	if t.Kind() == reflect.Ptr {
		t = t.Elem()
	}
	if !usesHostile(t) {
		return
	}
	guard(func() error {
		// the shared option values come first, the other instance's own second:
		// option values are immutable by contract, listing one next to another
		// must not change it
		if it, err := gotype.NewIterator(discardVisitor{}, sharedFoldOpt, hostileFoldOpts); err == nil {
			_ = it.Fold(reflect.New(t).Elem().Interface())
		}
		if u, err := gotype.NewUnfolder(nil, gomodel.UnfoldOptions(), hostileUnfoldOpts); err == nil {
			_ = u.SetTarget(reflect.New(t).Interface())
		}
		return nil
	})
}

var (
	hostileFoldOpts = gotype.Folders(
		func(v *gomodel.NInt, vis structform.ExtVisitor) error { return vis.OnString("hostile") },
		func(v *gomodel.NStr, vis structform.ExtVisitor) error { return vis.OnInt(-1) },
		func(v *gomodel.NF64, vis structform.ExtVisitor) error { return vis.OnNil() },
		func(v *gomodel.NBool, vis structform.ExtVisitor) error { return vis.OnString("hostile") },
		func(v *gomodel.NUint16, vis structform.ExtVisitor) error { return vis.OnString("hostile") },
	)
	hostileUnfoldOpts = gotype.Unfolders(
		func(to *gomodel.NInt, v int64) error { *to = gomodel.NInt(v ^ 0x5555); return nil },
		func(to *gomodel.NStr, v string) error { *to = gomodel.NStr("hostile:" + v); return nil },
		func(to *gomodel.NF64, v float64) error { *to = gomodel.NF64(-v - 1); return nil },
		func(to *gomodel.NBool, v bool) error { *to = gomodel.NBool(!v); return nil },
		func(to *gomodel.NUint16, v uint16) error { *to = gomodel.NUint16(v + 1); return nil },
	)
	hostileTypes = []reflect.Type{reflect.TypeOf(gomodel.NInt(0)), reflect.TypeOf(gomodel.NStr("")), reflect.TypeOf(gomodel.NF64(0)), reflect.TypeOf(gomodel.NBool(false)), reflect.TypeOf(gomodel.NUint16(0))}
)

func usesHostile(t reflect.Type) bool { return usesTypes(t, 0, map[reflect.Type]bool{}) }

func usesTypes(t reflect.Type, depth int, seen map[reflect.Type]bool) bool {
	if depth > 12 || seen[t] {
		return false
	}
	seen[t] = true
	for _, h := range hostileTypes {
		if t == h {
			return true
		}
	}
	switch t.Kind() {
	case reflect.Ptr, reflect.Slice, reflect.Array, reflect.Map:
		return usesTypes(t.Elem(), depth+1, seen)
	case reflect.Struct:
		for i := 0; i < t.NumField(); i++ {
			if usesTypes(t.Field(i).Type, depth+1, seen) {
				return true
			}
		}
	}
	return false
}

// discardVisitor accepts every event.
type discardVisitor struct{}

func (discardVisitor) OnObjectStart(int, structform.BaseType) error { return nil }
func (discardVisitor) OnObjectFinished() error                      { return nil }
func (discardVisitor) OnKey(string) error                           { return nil }
func (discardVisitor) OnArrayStart(int, structform.BaseType) error  { return nil }
func (discardVisitor) OnArrayFinished() error                       { return nil }
func (discardVisitor) OnNil() error                                 { return nil }
func (discardVisitor) OnBool(bool) error                            { return nil }
func (discardVisitor) OnString(string) error                        { return nil }
func (discardVisitor) OnInt8(int8) error                            { return nil }
func (discardVisitor) OnInt16(int16) error                          { return nil }
func (discardVisitor) OnInt32(int32) error                          { return nil }
func (discardVisitor) OnInt64(int64) error                          { return nil }
func (discardVisitor) OnInt(int) error                              { return nil }
func (discardVisitor) OnByte(byte) error                            { return nil }
func (discardVisitor) OnUint8(uint8) error                          { return nil }
func (discardVisitor) OnUint16(uint16) error                        { return nil }
func (discardVisitor) OnUint32(uint32) error                        { return nil }
func (discardVisitor) OnUint64(uint64) error                        { return nil }
func (discardVisitor) OnUint(uint) error                            { return nil }
func (discardVisitor) OnFloat32(float32) error                      { return nil }
func (discardVisitor) OnFloat64(float64) error                      { return nil }

var regTType = reflect.TypeOf(gomodel.RegT{})
var rDurType = reflect.TypeOf(gomodel.RDur(0))
var regPSType = reflect.TypeOf(gomodel.RegPS{})

func usesRegT(t reflect.Type, depth int, seen map[reflect.Type]bool) bool {
	if depth > 12 || seen[t] {
		return false
	}
	seen[t] = true
	if t == regTType || t == rDurType || t == regPSType {
		return true
	}
	switch t.Kind() {
	case reflect.Ptr, reflect.Slice, reflect.Array, reflect.Map:
		return usesRegT(t.Elem(), depth+1, seen)
	case reflect.Interface:
		return true // the dynamic value may hold anything
	case reflect.Struct:
		for i := 0; i < t.NumField(); i++ {
			if usesRegT(t.Field(i).Type, depth+1, seen) {
				return true
			}
		}
	}
	return false
}

func typeHasActiveTag(t reflect.Type, depth int) bool {
	if depth > 6 {
		return false
	}
	switch t.Kind() {
	case reflect.Ptr, reflect.Slice, reflect.Array, reflect.Map:
		return typeHasActiveTag(t.Elem(), depth+1)
	case reflect.Struct:
		for i := 0; i < t.NumField(); i++ {
			f := t.Field(i)
			o := gomodel.ParseTag(f.Tag.Get("struct"))
			if o.Inline || o.OmitEmpty || o.Omit || o.Name != "" {
				return true
			}
			if typeHasActiveTag(f.Type, depth+1) {
				return true
			}
		}
	}
	return false
}

func typeClasses(t reflect.Type, info *CaseInfo, depth int, seen map[string]bool) {
	if depth > 6 {
		return
	}
	add := func(c string) {
		if !seen[c] {
			seen[c] = true
			info.Class(c)
		}
	}
	add("kind:" + t.Kind().String())
	switch t.Kind() {
	case reflect.Ptr, reflect.Slice, reflect.Array, reflect.Map:
		typeClasses(t.Elem(), info, depth+1, seen)
	case reflect.Struct:
		if t.Name() != "" {
			add("named:" + t.Name())
		}
		for i := 0; i < t.NumField(); i++ {
			f := t.Field(i)
			o := gomodel.ParseTag(f.Tag.Get("struct"))
			if o.Inline {
				add("tag:inline")
			}
			if o.OmitEmpty {
				add("tag:omitempty")
			}
			if o.Omit {
				add("tag:omit")
			}
			if o.Name != "" {
				add("tag:name")
			}
			typeClasses(f.Type, info, depth+1, seen)
		}
	default:
		if t.Name() != "" && t.PkgPath() != "" {
			add("named:" + t.Name())
		}
	}
}

func drawGoCase(t *rapid.T, tcfg gomodel.TypeCfg, vcfg gomodel.ValCfg) *GoCase {
	td := gomodel.DrawType(t, tcfg)
	typ, err := gomodel.Build(td)
	if err != nil {
		t.Fatalf("harness: %v", err)
	}
	vcfg.DynFolders = tcfg.FoldOnly
	return &GoCase{Type: *td, Val: gomodel.DrawValue(t, typ, vcfg)}
}

// enumFoldPoolShapes enumerates every pool type with a custom folder in every
// position the library distinguishes, with a fixed non-empty value.
func enumFoldPoolShapes(wrap func(g *GoCase) any) func(emit func(c any) bool) {
	return func(emit func(c any) bool) {
		for _, p := range gomodel.Pool {
			if !p.FoldOnly || p.Family {
				continue
			}
			b := gomodel.TypeDesc{Kind: "pool", Pool: p.Name}
			pb := gomodel.TypeDesc{Kind: "ptr", Elem: &b}
			shapes := []gomodel.TypeDesc{
				b, pb,
				{Kind: "slice", Elem: &b},
				{Kind: "array", Len: 2, Elem: &b},
				{Kind: "map", Elem: &b},
				{Kind: "slice", Elem: &pb},
				{Kind: "map", Elem: &pb},
				{Kind: "struct", Fields: []gomodel.FieldDesc{{Name: "A", Type: gomodel.TypeDesc{Kind: "int"}}, {Name: "F", Type: b}, {Name: "G", Type: gomodel.TypeDesc{Kind: "slice", Elem: &b}}, {Name: "H", Tag: `struct:"h,omitempty"`, Type: pb}}},
				{Kind: "struct", Fields: []gomodel.FieldDesc{{Name: "A", Type: gomodel.TypeDesc{Kind: "int"}}, {Name: "F", Tag: `struct:",inline"`, Type: b}}},
				{Kind: "struct", Fields: []gomodel.FieldDesc{{Name: "F", Tag: `struct:",inline"`, Type: pb}, {Name: "Z", Type: gomodel.TypeDesc{Kind: "string"}}}},
			}
			for i := range shapes {
				typ, err := gomodel.Build(&shapes[i])
				if err != nil {
					continue
				}
				if !emit(wrap(&GoCase{Type: shapes[i], Val: gomodel.SampleValue(typ)})) {
					return
				}
			}
			// as dynamic value of an interface: top level, slice element, map value, field
			dyn := &b
			if p.Name == "FolderPtr" || p.Name == "RegT" || p.Name == "FFlag" || p.Name == "RDur" {
				dyn = &pb
			}
			rt, err := gomodel.Build(dyn)
			if err != nil {
				continue
			}
			dv := gomodel.SampleValue(rt)
			iv := gomodel.GoVal{Ptr: &dv, Dyn: dyn}
			ifc := gomodel.TypeDesc{Kind: "iface"}
			for _, c := range []GoCase{
				{Type: ifc, Val: iv},
				{Type: gomodel.TypeDesc{Kind: "slice", Elem: &ifc}, Val: gomodel.GoVal{Elems: []gomodel.GoVal{iv, iv}}},
				{Type: gomodel.TypeDesc{Kind: "map", Elem: &ifc}, Val: gomodel.GoVal{Keys: []string{"k"}, Elems: []gomodel.GoVal{iv}}},
				{Type: gomodel.TypeDesc{Kind: "struct", Fields: []gomodel.FieldDesc{{Name: "A", Type: gomodel.TypeDesc{Kind: "int"}}, {Name: "I", Type: ifc}}}, Val: gomodel.GoVal{Elems: []gomodel.GoVal{{I: 1}, iv}}},
			} {
				c := c
				if !emit(wrap(&c)) {
					return
				}
			}
		}
		// omitempty matrix: every IsZeroer pool type x {IsZero() true, false} x every
		// way an omitempty field can reach it (value, pointer, pointer to pointer,
		// interface holding the value, interface holding a pointer), framed by two
		// plain members
		type zv struct {
			name string
			vals []gomodel.GoVal // IsZero()==true first, then false
		}
		f64 := func(f float64) uint64 { return math.Float64bits(f) }
		for _, z := range []zv{
			{"ZeroVal", []gomodel.GoVal{{Elems: []gomodel.GoVal{{I: 0}}}, {Elems: []gomodel.GoVal{{I: 7}}}}},
			{"ZeroPtr", []gomodel.GoVal{{Elems: []gomodel.GoVal{{I: 0}}}, {Elems: []gomodel.GoVal{{I: 7}}}}},
			{"ZInt", []gomodel.GoVal{{I: 0}, {I: -5}, {I: 5}}},
			{"ZF64", []gomodel.GoVal{{F: f64(0)}, {F: f64(-2.5)}, {F: f64(2.5)}}},
			{"ZFlag", []gomodel.GoVal{{B: false}, {B: true}}},
			{"ZU8", []gomodel.GoVal{{U: 0}, {U: 4}, {U: 3}}},
			{"ZStr", []gomodel.GoVal{{S: []byte("")}, {S: []byte("odd")}, {S: []byte("even")}}},
			{"ZList", []gomodel.GoVal{{Elems: []gomodel.GoVal{}}, {Elems: []gomodel.GoVal{{S: []byte("a")}, {S: []byte("a")}}}, {Elems: []gomodel.GoVal{{S: []byte("a")}, {S: []byte("b")}}}}},
		} {
			b := gomodel.TypeDesc{Kind: "pool", Pool: z.name}
			pb := gomodel.TypeDesc{Kind: "ptr", Elem: &b}
			ppb := gomodel.TypeDesc{Kind: "ptr", Elem: &pb}
			ifc := gomodel.TypeDesc{Kind: "iface"}
			for _, v := range z.vals {
				v := v
				pv := gomodel.GoVal{Ptr: &v}
				for _, fv := range []struct {
					t gomodel.TypeDesc
					v gomodel.GoVal
				}{
					{b, v}, {pb, pv}, {ppb, gomodel.GoVal{Ptr: &pv}},
					{ifc, gomodel.GoVal{Ptr: &v, Dyn: &b}}, {ifc, gomodel.GoVal{Ptr: &pv, Dyn: &pb}},
				} {
					for _, tag := range []string{`struct:",omitempty"`, `struct:"z,omitempty"`, ``} {
						c := GoCase{
							Type: gomodel.TypeDesc{Kind: "struct", Fields: []gomodel.FieldDesc{{Name: "A", Type: gomodel.TypeDesc{Kind: "int"}}, {Name: "F", Tag: tag, Type: fv.t}, {Name: "Z", Type: gomodel.TypeDesc{Kind: "string"}}}},
							Val:  gomodel.GoVal{Elems: []gomodel.GoVal{{I: 1}, fv.v, {S: []byte("z")}}},
						}
						if !emit(wrap(&c)) {
							return
						}
					}
				}
			}
		}
	}
}

// enumReentrantMaps: one compiled map folder used re-entrantly — a map type
// M = map[string]E whose struct element holds, through an interface, further
// non-empty maps of the very same type M, three levels deep and with several
// keys per level (whatever a folder keeps per TYPE while it iterates must
// survive folding the same type inside an element); plain, as a field and inlined.
func enumReentrantMaps(wrap func(g *GoCase) any, emit func(c any) bool) bool {
	ifc := gomodel.TypeDesc{Kind: "iface"}
	for _, elemIsSlice := range []bool{false, true} {
		e := gomodel.TypeDesc{Kind: "struct", Fields: []gomodel.FieldDesc{{Name: "Name", Type: gomodel.TypeDesc{Kind: "string"}}, {Name: "I", Type: ifc}}}
		et := e
		if elemIsSlice {
			et = gomodel.TypeDesc{Kind: "slice", Elem: &e}
		}
		m := gomodel.TypeDesc{Kind: "map", Elem: &et}
		elem := func(v gomodel.GoVal) gomodel.GoVal {
			if elemIsSlice {
				return gomodel.GoVal{Elems: []gomodel.GoVal{v, v}}
			}
			return v
		}
		leaf := func(name string) gomodel.GoVal {
			return elem(gomodel.GoVal{Elems: []gomodel.GoVal{{S: []byte(name)}, {Nil: true}}})
		}
		node := func(name string, mv gomodel.GoVal) gomodel.GoVal {
			return elem(gomodel.GoVal{Elems: []gomodel.GoVal{{S: []byte(name)}, {Ptr: &mv, Dyn: &m}}})
		}
		lvl3 := gomodel.GoVal{Keys: []string{"c", "c2"}, Elems: []gomodel.GoVal{leaf("z"), leaf("z2")}}
		lvl2 := gomodel.GoVal{Keys: []string{"b", "b2"}, Elems: []gomodel.GoVal{node("y", lvl3), node("y2", lvl3)}}
		lvl1 := gomodel.GoVal{Keys: []string{"a", "a2", "a3"}, Elems: []gomodel.GoVal{node("x", lvl2), leaf("w"), node("v", lvl2)}}
		for _, c := range []GoCase{
			{Type: m, Val: lvl1},
			{Type: gomodel.TypeDesc{Kind: "struct", Fields: []gomodel.FieldDesc{{Name: "A", Type: gomodel.TypeDesc{Kind: "int"}}, {Name: "M", Type: m}}}, Val: gomodel.GoVal{Elems: []gomodel.GoVal{{I: 1}, lvl1}}},
			{Type: gomodel.TypeDesc{Kind: "struct", Fields: []gomodel.FieldDesc{{Name: "A", Type: gomodel.TypeDesc{Kind: "int"}}, {Name: "M", Tag: `struct:",inline"`, Type: m}}}, Val: gomodel.GoVal{Elems: []gomodel.GoVal{{I: 1}, lvl1}}},
		} {
			c := c
			if !emit(wrap(&c)) {
				return false
			}
		}
	}
	return true
}

// drawGoHistory draws n cases for one instance; later types share components
// with earlier ones half of the time (gomodel.DrawRelatedType).
func drawGoHistory(t *rapid.T, n int, tcfg gomodel.TypeCfg, vcfg func() gomodel.ValCfg) []GoCase {
	var out []GoCase
	var prev []*gomodel.TypeDesc
	for i := 0; i < n; i++ {
		td := gomodel.DrawRelatedType(t, prev, tcfg)
		if len(prev) > 0 && rapid.IntRange(0, 1).Draw(t, "sameagain") == 0 {
			// the very same type again with another value: what an instance
			// compiled (and memoised) for one value meets other dynamic types,
			// other nil-ness, other emptiness
			td = prev[rapid.IntRange(0, len(prev)-1).Draw(t, "sameidx")]
		}
		typ, err := gomodel.Build(td)
		if err != nil {
			t.Fatalf("harness: %v", err)
		}
		vc := vcfg()
		vc.DynFolders = tcfg.FoldOnly
		out = append(out, GoCase{Type: *td, Val: gomodel.DrawValue(t, typ, vc)})
		prev = append(prev, td)
	}
	return out
}

func describeGo(c *GoCase, rv reflect.Value) string {
	s := fmt.Sprintf("type %s", &c.Type)
	if len(s) > 700 {
		s = s[:700] + "…"
	}
	v := fmt.Sprintf("%+v", safeInterface(rv))
	if len(v) > 500 {
		v = v[:500] + "…"
	}
	return s + " value " + v
}

func safeInterface(rv reflect.Value) (out any) {
	defer func() {
		if recover() != nil {
			out = "<unprintable>"
		}
	}()
	return rv.Interface()
}

var _ = model.Null

// newUnfolder creates an unfolder for the target (or for later SetTarget calls
// with the given types): the user-unfolder option is only passed when one of
// the types needs it, because an unfolder with options takes other lookup paths
// than one without.
func newUnfolder(target any, types ...reflect.Type) (*gotype.Unfolder, error) {
	need := false
	if target != nil {
		need = gomodel.UsesUserUnfolder(reflect.TypeOf(target)) || withSharedOpts(reflect.TypeOf(target))
		otherInstances(reflect.TypeOf(target))
	}
	for _, t := range types {
		need = need || gomodel.UsesUserUnfolder(t) || withSharedOpts(t)
		otherInstances(t)
	}
	if need {
		return gotype.NewUnfolder(target, gomodel.UnfoldOptions())
	}
	return gotype.NewUnfolder(target)
}
