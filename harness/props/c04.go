package props

import (
	"fmt"
	sfjson "github.com/elastic/go-structform/json"
	"math"
	"math/big"
	"strings"
	"unicode/utf8"

	"pgregory.net/rapid"

	"verif/harness/gen"
	"verif/harness/model"
	"verif/harness/ref"
)

// C04 — the JSON parser reads every valid RFC 8259 text with the value a
// reference decoder (encoding/json) assigns; broken structure is rejected.

type C04Case struct {
	Text    []byte `json:"text"`
	Mutated bool   `json:"mutated,omitempty"` // the token sequence was structurally broken
	Note    string `json:"note,omitempty"`
	// Prev: texts handled FIRST by the same Parser instance (complete, invalid
	// or — PrevWrite — fed through Write and abandoned); the text under test is
	// then read by Parser.Parse on that instance and must still get its value
	Prev      [][]byte `json:"prev,omitempty"`
	PrevWrite []bool   `json:"prev_write,omitempty"`
	// Cuts: the text reaches the parser through ParseReader over a reader that
	// returns exactly these chunks
	Cuts []int `json:"cuts,omitempty"`
}

// texts that leave a parser in every kind of intermediate or final state
var c04PrevTexts = []string{"2.5", "1e3", "-0.0", "7", "-9223372036854775808", `"a\\"`, `"é\u00e9"`, "tru", "[0.", `{"a":`, `"abc`, "[1,2", `{"k":"v\`, "[[[", `"\ud83d`, "nul", "1e", "-", `{"a":1.5e`, "[true,", ` `, "", "null", `[1.5]`, `{"x":[2e2]}`}

var jsonIntLits = []string{
	"0", "-0", "1", "-1", "9223372036854775807", "9223372036854775808", "18446744073709551615", "18446744073709551616",
	"-9223372036854775808", "-9223372036854775809", "-18446744073709551615", "123456789012345678901234567890", "-123456789012345678901234567890",
	"9007199254740993", "4294967296", "99999999999999999999", "10000000000000000000", "18446744073709551614", "9223372036854775806",
}
var jsonFloatLits = []string{
	"1e308", "1e309", "-1e309", "5e-324", "1e-400", "0.0", "-0.0", "1E5", "1e+5", "1e-5", "0e0", "1.5", "3.141592653589793", "2.5e-5",
	"123456789012345678901234567890.5", "0.1e1", "1e00", "9007199254740993.0", "1.7976931348623157e308", "1.7976931348623159e308", "4.9e-324", "2.4703282292062327e-324",
	"18446744073709551615.0", "9223372036854775808e0",
}

// litize gives number leaves a drawn literal spelling.
func litize(t *rapid.T, v *model.V) {
	switch v.K {
	case model.VArr:
		for i := range v.A {
			litize(t, &v.A[i])
		}
	case model.VObj:
		for i := range v.O {
			litize(t, &v.O[i].Val)
		}
	case model.VInt:
		if rapid.IntRange(0, 3).Draw(t, "litint") == 3 {
			v.Lit = rapid.SampledFrom(jsonIntLits).Draw(t, "litintv")
		}
	case model.VFloat:
		switch rapid.IntRange(0, 5).Draw(t, "litflt") {
		case 4:
			v.Lit = rapid.SampledFrom(jsonFloatLits).Draw(t, "litfltv")
		case 5:
			// grammar-driven literal
			var b strings.Builder
			if rapid.Bool().Draw(t, "lneg") {
				b.WriteByte('-')
			}
			b.WriteString(rapid.StringMatching(`(0|[1-9][0-9]{0,20})`).Draw(t, "lint"))
			if rapid.Bool().Draw(t, "lfrac") {
				b.WriteString(rapid.StringMatching(`\.[0-9]{1,20}`).Draw(t, "lfracv"))
			}
			if rapid.Bool().Draw(t, "lexp") {
				b.WriteString(rapid.StringMatching(`[eE][+-]?[0-9]{1,3}`).Draw(t, "lexpv"))
			}
			v.Lit = b.String()
		}
	}
}

// diffJSONRef compares the library's value with the reference value, applying
// the number rule of the property statement.
func diffJSONRef(exp, got model.V, path string) string {
	if exp.Lit != "" {
		n := ref.ClassifyJSONNumber(exp.Lit)
		switch {
		case n.IsInt:
			if got.K == model.VInt && got.N.Cmp(n.Int) == 0 {
				return ""
			}
			return fmt.Sprintf("%s: integer literal %s reported as %v", path, exp.Lit, got)
		default:
			// correctly rounded float64 (an integer event with exactly that value is accepted too)
			switch got.K {
			case model.VFloat:
				if !got.F32 && (got.Float() == n.F) {
					return ""
				}
			case model.VInt:
				if !math.IsInf(n.F, 0) && new(big.Float).SetInt(got.N).Cmp(big.NewFloat(n.F)) == 0 {
					return ""
				}
			}
			return fmt.Sprintf("%s: number literal %s (correctly rounded: %v) reported as %v", path, exp.Lit, n.F, got)
		}
	}
	if exp.K != got.K {
		return fmt.Sprintf("%s: expected %v, got %v", path, exp, got)
	}
	switch exp.K {
	case model.VBool:
		if exp.B != got.B {
			return fmt.Sprintf("%s: expected %v, got %v", path, exp, got)
		}
	case model.VStr:
		if string(exp.S) != string(got.S) {
			return fmt.Sprintf("%s: expected string %q, got %q", path, exp.S, got.S)
		}
	case model.VArr:
		if len(exp.A) != len(got.A) {
			return fmt.Sprintf("%s: expected %d elements, got %d", path, len(exp.A), len(got.A))
		}
		for i := range exp.A {
			if d := diffJSONRef(exp.A[i], got.A[i], fmt.Sprintf("%s[%d]", path, i)); d != "" {
				return d
			}
		}
	case model.VObj:
		if len(exp.O) != len(got.O) {
			return fmt.Sprintf("%s: expected %d members, got %d", path, len(exp.O), len(got.O))
		}
		for i := range exp.O {
			if string(exp.O[i].Key) != string(got.O[i].Key) {
				return fmt.Sprintf("%s: member #%d: expected key %q, got %q", path, i, exp.O[i].Key, got.O[i].Key)
			}
			if d := diffJSONRef(exp.O[i].Val, got.O[i].Val, fmt.Sprintf("%s.%q", path, exp.O[i].Key)); d != "" {
				return d
			}
		}
	}
	return ""
}

func checkC04(ci any, info *CaseInfo) string {
	c := ci.(*C04Case)
	if !utf8.Valid(c.Text) {
		return "harness: case text is not valid UTF-8"
	}
	exp, nums, rerr := ref.DecodeJSON(c.Text)
	mayReject := false
	for _, n := range nums {
		if n.BigInt || n.OutOfF64 {
			mayReject = true
			info.Class("bigint_or_out_of_range_literal")
		}
	}
	rec := &model.Recorder{}
	var o Outcome
	if len(c.Prev) > 0 {
		info.Class("reused_parser")
		p := sfjson.NewParser(rec)
		for i, prev := range c.Prev {
			prev := prev
			byWrite := i < len(c.PrevWrite) && c.PrevWrite[i]
			po := guard(func() error {
				if byWrite {
					_, err := p.Write(prev)
					return err
				}
				return p.Parse(prev)
			})
			if po.Panicked() {
				return fmt.Sprintf("json parser panicked on the earlier text %q: %v\n%s", prev, po.Panic, po.Stack)
			}
		}
		rec.Reset()
		o = guard(func() error { return p.Parse(c.Text) })
	} else if len(c.Cuts) > 0 {
		info.Class("chunked")
		o = guard(func() error {
			_, err := codecs["json"].ParseReader(&chunkReader{chunks: cloneChunks(gen.Split(c.Text, c.Cuts))}, rec)
			return err
		})
	} else {
		o = guard(func() error { return codecs["json"].Parse(c.Text, rec) })
	}
	if o.Panicked() {
		return fmt.Sprintf("json parser panicked on %q: %v\n%s", trunc(c.Text), o.Panic, o.Stack)
	}
	if c.Mutated {
		info.Class("mutated")
		if rerr == nil {
			info.Class("mutation_still_valid")
			// fall through: treat as a valid text
		} else {
			// must be rejected unless it is a concatenation of valid values
			if _, _, serr := ref.DecodeJSONStream(c.Text); serr == nil {
				info.Class("mutation_is_value_stream")
				return ""
			}
			// only a broken bracket/comma/colon structure carries an obligation;
			// token-level leniencies (01, +1, adjacent digits after a swap) do not
			toks, ok := jsonTokens(c.Text)
			if !ok {
				info.Class("mutation_unrecognisable_token")
				return ""
			}
			if jsonStructureOK(toks) {
				info.Class("mutation_structure_ok_under_lenient_tokens")
				return ""
			}
			info.NonTrivial = true
			if o.Err == nil {
				return fmt.Sprintf("json parser accepted %q, whose token structure is not that of a JSON text (encoding/json: %v); events: %v", trunc(c.Text), rerr, truncEvs(rec.Evs))
			}
			return ""
		}
	}
	if rerr != nil {
		return fmt.Sprintf("harness: encoding/json rejects the generated text %q: %v", trunc(c.Text), rerr)
	}
	info.NonTrivial = strings.ContainsAny(string(c.Text), "\\[{") || !isASCIIBytes(c.Text) || len(nums) > 0 && len(nums[0].Lit) > 2
	if strings.Contains(string(c.Text), "\\") {
		info.Class("escape")
	}
	if !isASCIIBytes(c.Text) {
		info.Class("multibyte")
	}
	if o.Err == nil {
		if m := rec.RetainedIntact(); m != "" {
			return fmt.Sprintf("json parser on %q: %s", trunc(c.Text), m)
		}
	}
	if o.Err != nil {
		if mayReject {
			info.Class("rejected_out_of_range_number")
			return ""
		}
		return fmt.Sprintf("json parser rejected the valid text %q: %v", trunc(c.Text), o.Err)
	}
	got, err := model.Tree(rec.Evs)
	if err != nil {
		return fmt.Sprintf("json parser produced a malformed event stream for %q: %v", trunc(c.Text), err)
	}
	if d := diffJSONRef(exp, got, "$"); d != "" {
		return fmt.Sprintf("json parser reports another value than the reference decoder for %q: %s", trunc(c.Text), d)
	}
	return ""
}

func isASCIIBytes(b []byte) bool {
	for _, c := range b {
		if c >= 0x80 {
			return false
		}
	}
	return true
}

func truncEvs(evs []model.Ev) []model.Ev {
	if len(evs) > 12 {
		return evs[:12]
	}
	return evs
}

// mutateTokens breaks the bracket/comma/colon structure of a token sequence.
func mutateTokens(t *rapid.T, toks []ref.JSONTok) ([]ref.JSONTok, string) {
	var structural []int
	for i, tk := range toks {
		switch tk.Kind {
		case "{", "}", "[", "]", ",", ":":
			structural = append(structural, i)
		}
	}
	out := append([]ref.JSONTok(nil), toks...)
	mode := rapid.IntRange(0, 6).Draw(t, "mutmode")
	if len(structural) == 0 {
		mode = 5
	}
	pick := func() int { return structural[rapid.IntRange(0, len(structural)-1).Draw(t, "mutidx")] }
	switch mode {
	case 0: // drop a structural token
		i := pick()
		return append(out[:i], out[i+1:]...), "drop " + toks[i].Kind
	case 1: // duplicate
		i := pick()
		out = append(out[:i+1], out[i:]...)
		return out, "dup " + toks[i].Kind
	case 2: // replace by another structural token
		i := pick()
		repl := rapid.SampledFrom([]string{"{", "}", "[", "]", ",", ":"}).Draw(t, "mutrepl")
		out[i] = ref.JSONTok{Kind: repl, Text: []byte(repl)}
		return out, "replace " + toks[i].Kind + " by " + repl
	case 3: // swap with neighbour token
		i := pick()
		if i+1 < len(out) {
			out[i], out[i+1] = out[i+1], out[i]
		}
		return out, "swap"
	case 4: // insert a structural token at a random position
		pos := rapid.IntRange(0, len(out)).Draw(t, "mutpos")
		ins := rapid.SampledFrom([]string{"{", "}", "[", "]", ",", ":"}).Draw(t, "mutins")
		out = append(out[:pos], append([]ref.JSONTok{{Kind: ins, Text: []byte(ins)}}, out[pos:]...)...)
		return out, "insert " + ins
	case 5: // trailing / leading structural token
		ins := rapid.SampledFrom([]string{"}", "]", ",", ":"}).Draw(t, "mutins2")
		if rapid.Bool().Draw(t, "mutlead") {
			return append([]ref.JSONTok{{Kind: ins, Text: []byte(ins)}}, out...), "lead " + ins
		}
		return append(out, ref.JSONTok{Kind: ins, Text: []byte(ins)}), "trail " + ins
	default: // replace a key by a non-string value
		for i, tk := range out {
			if tk.Kind == "key" {
				out[i] = ref.JSONTok{Kind: "num", Text: []byte("1")}
				return out, "non-string key"
			}
		}
		i := pick()
		return append(out[:i], out[i+1:]...), "drop " + toks[i].Kind
	}
}

func init() {
	register(&Property{
		ID:   "C04",
		Rule: "rapid draws a value tree and renders it with the harness' grammar-based RFC 8259 text generator (whitespace SP/HT/LF/CR anywhere allowed, every escape spelling incl. \\uXXXX in both hex cases, surrogate pairs, lone surrogates, raw multi-byte UTF-8 after escapes, number literals with sign/fraction/exponent and 64-bit boundary integers, out-of-range literals); 1 in 4 of the valid texts arrives through ParseReader in chunks (cuts after whitespace bytes, into tokens, at random); 1 in 4 of the others is read by Parser.Parse on an instance that handled 1..2 other texts first (complete, invalid, or written and abandoned midway); 1 in 4 cases breaks the token structure (drop/dup/replace/swap/insert a structural token, non-string key); deterministic part: the complete single-token edit neighbourhood of 13 fixed texts (every token dropped, duplicated, swapped with its successor, every structural token replaced by every other, every structural token and three value tokens inserted at every gap); oracle = encoding/json (Token+UseNumber) with the statement's number rule; non-trivial = text has an escape, a multi-byte rune, a container or a number literal longer than 2 bytes (mutations: the reference rejects the text and it is not a value stream); distinct by text hash",
		New:  func() any { return &C04Case{} },
		Draw: func(t *rapid.T) any {
			v := gen.Value(t, gen.ValueCfg{IntRange: "json", ValidUTF8: true, Finite: true, Deep: true})
			litize(t, &v)
			e := &ref.JSONEnc{C: gen.RapidChooser{T: t}, LoneSurrogates: true}
			e.Encode(v)
			if rapid.IntRange(0, 3).Draw(t, "mutate") == 3 {
				toks, note := mutateTokens(t, e.Toks)
				text, _ := ref.JoinJSON(toks)
				return &C04Case{Text: text, Mutated: true, Note: note}
			}
			text, spans := ref.JoinJSON(e.Toks)
			c := &C04Case{Text: text}
			if len(text) >= 2 && rapid.IntRange(0, 3).Draw(t, "chunked") == 0 {
				// cuts aimed at the gaps between tokens (whitespace) as well as
				// into tokens and at random
				if rapid.Bool().Draw(t, "wscuts") {
					for i := 1; i < len(text); i++ {
						if (text[i-1] == ' ' || text[i-1] == '\t' || text[i-1] == '\n' || text[i-1] == '\r') && rapid.IntRange(0, 2).Draw(t, "wscut") == 0 {
							c.Cuts = append(c.Cuts, i)
						}
					}
				}
				if len(c.Cuts) == 0 {
					c.Cuts = gen.Cuts(t, len(text), spans)
				}
				return c
			}
			if rapid.IntRange(0, 3).Draw(t, "reuse") == 0 {
				for i, n := 0, rapid.IntRange(1, 2).Draw(t, "nprev"); i < n; i++ {
					c.Prev = append(c.Prev, []byte(rapid.SampledFrom(c04PrevTexts).Draw(t, "prev")))
					c.PrevWrite = append(c.PrevWrite, rapid.Bool().Draw(t, "prevwrite"))
				}
			}
			return c
		},
		Check: checkC04,
		Enum:  enumC04,
	})
}

// c04Pieces splits one of the fixed enumeration texts into tokens and the
// whitespace runs between them (the texts use no control characters).
func c04Pieces(text string) (pieces []string, isTok []bool) {
	i := 0
	for i < len(text) {
		c := text[i]
		j := i + 1
		switch {
		case c == ' ' || c == '\t' || c == '\n' || c == '\r':
			for j < len(text) && (text[j] == ' ' || text[j] == '\t' || text[j] == '\n' || text[j] == '\r') {
				j++
			}
			pieces, isTok = append(pieces, text[i:j]), append(isTok, false)
			i = j
			continue
		case strings.ContainsRune("{}[],:", rune(c)):
		case c == '"':
			for j < len(text) && text[j] != '"' {
				if text[j] == '\\' {
					j++
				}
				j++
			}
			j++
		default:
			for j < len(text) && !strings.ContainsRune("{}[],: \t\n\r\"", rune(text[j])) {
				j++
			}
		}
		pieces, isTok = append(pieces, text[i:j]), append(isTok, true)
		i = j
	}
	return pieces, isTok
}

var c04EnumTexts = []string{
	`{"a":1,"b":[true,null,{"c":"d"}],"e":{}}`,
	`[1,[2,3],{"k":[]},"s"]`,
	" { \"a\" : 1 , \"b\" : 2 } ",
	`[[],{}]`,
	`{"a":{"b":null},"c":2}`,
	`[{"k":"v"}]`,
	"[ 1 ,\n 2 ]",
	`{"":[{"":{}}]}`,
	`"s"`, `12`, `null`, `[]`, `{}`,
}

// enumC04: the complete single-token edit neighbourhood of a fixed set of texts —
// every token dropped, duplicated, swapped with its successor, every structural
// token replaced by every other one, and every structural token and three value
// tokens inserted at every gap (in front of and behind existing whitespace). The
// oracle is the one for generated mutations: a text whose bracket/comma/colon
// structure is not that of a JSON text must be rejected.
func enumC04(emit func(c any) bool) {
	structural := []string{"{", "}", "[", "]", ",", ":"}
	inserts := append(append([]string{}, structural...), "1", `"s"`, "null")
	for _, text := range c04EnumTexts {
		if !emit(&C04Case{Text: []byte(text)}) {
			return
		}
		pieces, isTok := c04Pieces(text)
		join := func(ps []string) []byte { return []byte(strings.Join(ps, "")) }
		with := func(i int, repl ...string) []string {
			out := append([]string{}, pieces[:i]...)
			out = append(out, repl...)
			return append(out, pieces[i+1:]...)
		}
		for i, p := range pieces {
			if !isTok[i] {
				continue
			}
			edits := [][]string{with(i), with(i, p, p)}
			for _, r := range structural {
				if r != p && len(p) == 1 && strings.Contains("{}[],:", p) {
					edits = append(edits, with(i, r))
				}
			}
			// swap with the next token (whitespace in between stays)
			for k := i + 1; k < len(pieces); k++ {
				if isTok[k] {
					sw := append([]string{}, pieces...)
					sw[i], sw[k] = sw[k], sw[i]
					edits = append(edits, sw)
					break
				}
			}
			for _, e := range edits {
				if !emit(&C04Case{Text: join(e), Mutated: true, Note: "enum single-token edit"}) {
					return
				}
			}
		}
		for gap := 0; gap <= len(pieces); gap++ {
			for _, ins := range inserts {
				out := append([]string{}, pieces[:gap]...)
				out = append(out, ins)
				out = append(out, pieces[gap:]...)
				// (a value token glued to a neighbouring word would change that token, not the structure)
				if !emit(&C04Case{Text: join(out), Mutated: true, Note: "enum single-token insert"}) {
					return
				}
			}
		}
	}
}
