package props

import (
	"bufio"
	"encoding/json"
	"fmt"
	"os"
	"runtime/debug"
	"testing"

	"pgregory.net/rapid"
)

func TestMain(m *testing.M) {
	debug.SetMaxStack(64 << 20)
	startWatchdog()
	code := m.Run()
	writeStats()
	os.Exit(code)
}

func propFromEnv(t *testing.T) *Property {
	id := os.Getenv("VERIF_PROP")
	p := registry[id]
	if p == nil {
		t.Skipf("VERIF_PROP=%q names no registered property", id)
	}
	return p
}

// TestRapid drives the selected property with rapid.
func TestRapid(t *testing.T) {
	p := propFromEnv(t)
	if p.Draw == nil {
		t.Skip("no generator")
	}
	rapid.Check(t, func(rt *rapid.T) {
		c := p.Draw(rt)
		if msg := execCase(p, c, "rapid"); msg != "" {
			rt.Fatalf("%s", msg)
		}
	})
}

// TestEnum runs the property's deterministic small-scope enumeration.
func TestEnum(t *testing.T) {
	p := propFromEnv(t)
	if p.Enum == nil {
		t.Skip("no enumeration")
	}
	n := 0
	p.Enum(func(c any) bool {
		n++
		if msg := execCase(p, c, "enum"); msg != "" {
			t.Errorf("%s", msg)
			return false
		}
		return true
	})
	t.Logf("enumerated %d cases", n)
}

type replayResult struct {
	File     string `json:"file"`
	Property string `json:"property"`
	OK       bool   `json:"ok"`
	Msg      string `json:"msg,omitempty"`
	LoadErr  string `json:"load_error,omitempty"`
}

// TestReplay re-executes case files (one path per line in $VERIF_REPLAY_LIST)
// without rapid and appends one JSON line per file to $VERIF_REPLAY_OUT.
func TestReplay(t *testing.T) {
	list := os.Getenv("VERIF_REPLAY_LIST")
	if list == "" {
		t.Skip("VERIF_REPLAY_LIST not set")
	}
	f, err := os.Open(list)
	if err != nil {
		t.Fatal(err)
	}
	defer f.Close()
	out, err := os.OpenFile(os.Getenv("VERIF_REPLAY_OUT"), os.O_APPEND|os.O_CREATE|os.O_WRONLY, 0o644)
	if err != nil {
		t.Fatal(err)
	}
	defer out.Close()
	sc := bufio.NewScanner(f)
	for sc.Scan() {
		path := sc.Text()
		if path == "" {
			continue
		}
		res := replayResult{File: path}
		p, c, cf, err := loadCaseFile(path)
		if cf != nil {
			res.Property = cf.Property
		}
		if err != nil {
			res.LoadErr = err.Error()
		} else {
			// attribute crashes: always leave the case behind before running it
			writeCaseFile(os.Getenv("VERIF_CURCASE"), p.ID, c, "", path)
			msg := execCase(p, c, path)
			res.OK, res.Msg = msg == "", msg
		}
		b, _ := json.Marshal(res)
		fmt.Fprintf(out, "%s\n", b)
		out.Sync()
	}
}
