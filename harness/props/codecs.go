package props

import (
	"io"

	structform "github.com/elastic/go-structform"
	"github.com/elastic/go-structform/cborl"
	sfjson "github.com/elastic/go-structform/json"
	"github.com/elastic/go-structform/ubjson"
)

// EncOpts are the JSON encoder options (ignored by the binary formats).
type EncOpts struct {
	EscapeHTML         bool `json:"escape_html,omitempty"`
	ExplicitRadixPoint bool `json:"explicit_radix,omitempty"`
	IgnoreInvalidFloat bool `json:"ignore_invalid_float,omitempty"`
}

// pushParser is the common surface of the three Parser types.
type pushParser interface {
	io.Writer
}

// pullDecoder is the common surface of the three Decoder types.
type pullDecoder interface {
	Next() error
}

type codec struct {
	Name            string
	NewVisitor      func(w io.Writer, o EncOpts) structform.Visitor
	Parse           func(b []byte, v structform.Visitor) error
	ParseString     func(s string, v structform.Visitor) error
	ParseReader     func(r io.Reader, v structform.Visitor) (int64, error)
	NewParser       func(v structform.Visitor) pushParser
	NewDecoder      func(r io.Reader, buf int, v structform.Visitor) pullDecoder
	NewBytesDecoder func(b []byte, v structform.Visitor) pullDecoder
}

var codecs = map[string]*codec{
	"json": {
		Name: "json",
		NewVisitor: func(w io.Writer, o EncOpts) structform.Visitor {
			// ANOTHER visitor is configured the opposite way first: instances are
			// independent, options set on one must never reach another one
			d := sfjson.NewVisitor(io.Discard)
			d.SetEscapeHTML(!o.EscapeHTML)
			d.SetExplicitRadixPoint(!o.ExplicitRadixPoint)
			d.SetIgnoreInvalidFloat(!o.IgnoreInvalidFloat)
			v := sfjson.NewVisitor(w)
			// the documented defaults (HTML escaping on, no explicit radix point,
			// invalid floats refused) are relied upon as most users do: a setter is
			// only called for a non-default choice — except when the radix option
			// is on, where every option is set explicitly
			if !o.EscapeHTML || o.ExplicitRadixPoint {
				v.SetEscapeHTML(o.EscapeHTML)
			}
			if o.ExplicitRadixPoint {
				v.SetExplicitRadixPoint(true)
			}
			if o.IgnoreInvalidFloat || o.ExplicitRadixPoint {
				v.SetIgnoreInvalidFloat(o.IgnoreInvalidFloat)
			}
			return v
		},
		Parse:       sfjson.Parse,
		ParseString: sfjson.ParseString,
		ParseReader: sfjson.ParseReader,
		NewParser:   func(v structform.Visitor) pushParser { return sfjson.NewParser(v) },
		NewDecoder: func(r io.Reader, buf int, v structform.Visitor) pullDecoder {
			return sfjson.NewDecoder(r, buf, v)
		},
		NewBytesDecoder: func(b []byte, v structform.Visitor) pullDecoder { return sfjson.NewBytesDecoder(b, v) },
	},
	"ubjson": {
		Name:        "ubjson",
		NewVisitor:  func(w io.Writer, _ EncOpts) structform.Visitor { return ubjson.NewVisitor(w) },
		Parse:       ubjson.Parse,
		ParseString: ubjson.ParseString,
		ParseReader: ubjson.ParseReader,
		NewParser:   func(v structform.Visitor) pushParser { return ubjson.NewParser(v) },
		NewDecoder: func(r io.Reader, buf int, v structform.Visitor) pullDecoder {
			return ubjson.NewDecoder(r, buf, v)
		},
		NewBytesDecoder: func(b []byte, v structform.Visitor) pullDecoder { return ubjson.NewBytesDecoder(b, v) },
	},
	"cborl": {
		Name:        "cborl",
		NewVisitor:  func(w io.Writer, _ EncOpts) structform.Visitor { return cborl.NewVisitor(w) },
		Parse:       cborl.Parse,
		ParseString: cborl.ParseString,
		ParseReader: cborl.ParseReader,
		NewParser:   func(v structform.Visitor) pushParser { return cborl.NewParser(v) },
		NewDecoder: func(r io.Reader, buf int, v structform.Visitor) pullDecoder {
			return cborl.NewDecoder(r, buf, v)
		},
		NewBytesDecoder: func(b []byte, v structform.Visitor) pullDecoder { return cborl.NewBytesDecoder(b, v) },
	},
}

var formatNames = []string{"json", "ubjson", "cborl"}

func ensureExt(v structform.Visitor) structform.ExtVisitor { return structform.EnsureExtVisitor(v) }
