package props

import (
	"bytes"
	"fmt"
	"strings"
	"unicode/utf8"

	"pgregory.net/rapid"

	"verif/harness/gen"
	"verif/harness/model"
	"verif/harness/ref"
)

// C07 — each encoder emits only valid documents that an independent decoder
// reads back (no library parser involved).

// walkPairs visits matching nodes of two equal-shaped trees.
func walkPairs(exp, got model.V, f func(e, g model.V)) {
	f(exp, got)
	switch exp.K {
	case model.VArr:
		if got.K == model.VArr {
			for i := range exp.A {
				if i < len(got.A) {
					walkPairs(exp.A[i], got.A[i], f)
				}
			}
		}
	case model.VObj:
		if got.K != model.VObj {
			return
		}
		if exp.Unordered {
			// members from a Go map are aligned by (sanitised) key; when
			// sanitising makes keys collide the pairs cannot be aligned
			seen := map[string]bool{}
			for _, em := range exp.O {
				k := string(model.SanitizeUTF8(em.Key))
				if seen[k] {
					return
				}
				seen[k] = true
			}
			used := make([]bool, len(got.O))
			for _, em := range exp.O {
				for j, gm := range got.O {
					if !used[j] && bytes.Equal(model.SanitizeUTF8(em.Key), model.SanitizeUTF8(gm.Key)) {
						used[j] = true
						walkPairs(em.Val, gm.Val, f)
						break
					}
				}
			}
			return
		}
		for i := range exp.O {
			if i < len(got.O) {
				walkPairs(exp.O[i].Val, got.O[i].Val, f)
			}
		}
	}
}

func checkC07(ci any, info *CaseInfo) string {
	c := ci.(*C01Case)
	cd := codecs[c.Format]
	if cd == nil {
		return "harness: unknown format " + c.Format
	}
	exp, err := model.Tree(c.Evs)
	if err != nil {
		return "harness: generated stream is not well formed: " + err.Error()
	}
	f := featsOf(c.Evs)
	info.NonTrivial = len(c.Evs) > 1 || f["float"] || f["biguint"] || f["ext"] || scalarIsSpecial(c.Evs)
	info.Class("format:" + c.Format)
	for k := range f {
		info.Class(k)
	}
	data, eo := encodeStream(cd, c.Opts, c.Evs)
	if eo.Panicked() {
		return fmt.Sprintf("%s encoder panicked: %v\n%s", c.Format, eo.Panic, eo.Stack)
	}
	if eo.Err != nil {
		if c.Format == "json" && f["nonfinite"] && !c.Opts.IgnoreInvalidFloat {
			info.Class("json_refused_nonfinite")
			return ""
		}
		return fmt.Sprintf("%s encoder returned an error for a well-formed stream: %v", c.Format, eo.Err)
	}
	var got model.V
	switch c.Format {
	case "json":
		if !utf8.Valid(data) {
			return fmt.Sprintf("json encoder wrote invalid UTF-8: %q", trunc(data))
		}
		for _, b := range data {
			if b < 0x20 {
				return fmt.Sprintf("json encoder wrote the raw control character %#x: %q", b, trunc(data))
			}
		}
		if c.Opts.EscapeHTML && bytes.ContainsAny(data, "<>&") {
			return fmt.Sprintf("json encoder wrote a raw '<', '>' or '&' although HTML escaping is on: %q", trunc(data))
		}
		v, _, err := ref.DecodeJSON(data)
		if err != nil {
			return fmt.Sprintf("json encoder wrote text that encoding/json rejects: %q: %v", trunc(data), err)
		}
		got = v
		msg := ""
		walkPairs(exp, got, func(e, g model.V) {
			if msg != "" || e.K != model.VFloat {
				return
			}
			if isNonFiniteV(e) {
				if g.K != model.VNull {
					msg = fmt.Sprintf("non-finite float written as %v instead of null", g)
				}
				return
			}
			if c.Opts.ExplicitRadixPoint && !strings.Contains(g.Lit, ".") {
				msg = fmt.Sprintf("float %v written as %q without a radix point although one was requested", e, g.Lit)
			}
		})
		if msg != "" {
			return fmt.Sprintf("json encoder: %s (output %q)", msg, trunc(data))
		}
	case "cborl":
		v, n, st, _ := ref.DecodeCBOR(data)
		if st != ref.OK || n != len(data) {
			return fmt.Sprintf("cborl encoder output %x is not exactly one well-formed RFC 7049 item (reference decoder: %v after %d of %d bytes); stream value %v", trunc(data), st, n, len(data), exp)
		}
		got = v
	case "ubjson":
		v, n, st, ui := ref.DecodeUBJSON(data)
		if st != ref.OK || n != len(data) {
			return fmt.Sprintf("ubjson encoder output %q (%x) is not exactly one valid draft-12 value (reference decoder: %v after %d of %d bytes); stream value %v", trunc(data), trunc(data), st, n, len(data), exp)
		}
		_ = ui
		got = v
	}
	if d := model.Diff(exp, got, rulesFor(c.Format, c.Opts)); d != "" {
		return fmt.Sprintf("%s encoder output decodes (reference decoder) to another value: %s (output %q / %x)", c.Format, d, trunc(data), trunc(data))
	}
	return ""
}

func isNonFiniteV(v model.V) bool {
	if v.F32 {
		return uint32(v.Bits)&0x7f800000 == 0x7f800000
	}
	return v.Bits&0x7ff0000000000000 == 0x7ff0000000000000
}

func init() {
	register(&Property{
		ID:   "C07",
		Rule: "as C01 (gen.Stream x format x JSON options) with extended events over-weighted, plus the same deterministic deep-nesting matrix (depths around every power of two up to 1024, siblings on both sides of the deep child); oracle = independent decoders only (encoding/json, reference RFC 7049 and draft-12 decoders) plus the JSON output predicates (valid UTF-8, no raw control characters, no raw <>& under HTML escaping, radix point on request, non-finite floats refused or null); non-trivial as C01; distinct by case hash",
		New:  func() any { return &C01Case{} },
		Draw: func(t *rapid.T) any {
			c := &C01Case{Format: rapid.SampledFrom(formatNames).Draw(t, "format")}
			if c.Format == "json" {
				c.Opts = drawOpts(t)
			}
			c.Evs, _ = gen.Stream(t, gen.StreamCfg{Ext: true, Refs: true, Deep: true, ExtHeavy: true})
			return c
		},
		Check: checkC07,
		Enum:  enumDeepStreams,
	})
}

// enumDeepStreams: nesting depths around every power of two up to 1024 (where a
// fixed-size stack, a bit set or a counter of some width would run out), as pure
// arrays, pure objects and alternating, every level with one sibling in front of
// and two behind the deep child, with and without announced lengths.
func enumDeepStreams(emit func(c any) bool) {
	depths := []int{1, 2, 3, 7, 8, 9, 15, 16, 17, 31, 32, 33, 34, 63, 64, 65, 66, 67, 68, 100, 127, 128, 129, 130, 255, 256, 257, 258, 511, 512, 513, 1023, 1024, 1025}
	for _, format := range formatNames {
		for _, d := range depths {
			for _, shape := range []string{"arr", "obj", "alt"} {
				for _, announce := range []bool{false, true} {
					var evs []model.Ev
					isObj := func(i int) bool { return shape == "obj" || (shape == "alt" && i%2 == 1) }
					for i := 0; i < d; i++ {
						ann := -1
						if announce {
							ann = 4
						}
						if isObj(i) {
							evs = append(evs, model.Ev{K: model.KObjStart, L: ann}, model.Ev{K: model.KKey, S: []byte("p")}, model.Ev{K: model.KBool, B: true}, model.Ev{K: model.KKey, S: []byte("k")})
						} else {
							evs = append(evs, model.Ev{K: model.KArrStart, L: ann}, model.Ev{K: model.KBool, B: true})
						}
					}
					evs = append(evs, model.Ev{K: model.KInt, I: int64(d)})
					for i := d - 1; i >= 0; i-- {
						if isObj(i) {
							evs = append(evs, model.Ev{K: model.KKey, S: []byte("q")}, model.Ev{K: model.KNil}, model.Ev{K: model.KKey, S: []byte("r")}, model.Ev{K: model.KInt, I: int64(i)}, model.Ev{K: model.KObjEnd})
						} else {
							evs = append(evs, model.Ev{K: model.KNil}, model.Ev{K: model.KInt, I: int64(i)}, model.Ev{K: model.KArrEnd})
						}
					}
					if !emit(&C01Case{Format: format, Evs: evs}) {
						return
					}
				}
			}
		}
	}
}
