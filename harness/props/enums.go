package props

import (
	"encoding/binary"
	"math"

	"verif/harness/gen"
	"verif/harness/ref"
)

// Deterministic small-scope enumerations added to the quick tier (and widened
// in the thorough tier).

// ---- C03: every proper prefix of a fixed set of valid documents x every entry point ----

func enumC03(emit func(c any) bool) {
	// scaling probes: every family x the three piecewise entry points
	for _, format := range formatNames {
		for _, fam := range scaleFamilies[format] {
			for _, entry := range []string{"write1", "reader3", "decoder3"} {
				if !emit(&C03Case{Format: format, Entry: entry, Kind: "enum_scaling", Scale: &C03Scale{Family: fam, N: 30000}}) {
					return
				}
			}
		}
	}
	for _, format := range formatNames {
		for _, d := range c02EnumDocs[format] {
			doc := []byte(d)
			// only documents the reference decoder accepts as exactly one value/stream
			if vals, err := refDecodeAll(format, doc); err != nil || len(vals) == 0 {
				continue
			}
			for n := 0; n <= len(doc); n++ {
				for _, entry := range c03Entries {
					c := &C03Case{Format: format, Data: doc[:n], Entry: entry, Kind: "enum_prefix"}
					switch entry {
					case "parsereader", "write", "decoder":
						if n > 1 {
							c.Cuts = []int{n / 2}
						}
						c.BufSize = 3
						c.EOFData = n%2 == 0
						if n%3 == 0 {
							c.ZeroReads = 1 // a Read that returns (0, nil) before every data read
						}
					}
					if !emit(c) {
						return
					}
				}
			}
		}
		// the header matrix: whole-buffer entry points and the pull decoder
		for _, h := range hostileHeaders(format) {
			for _, entry := range []string{"parse", "decoder", "write"} {
				c := &C03Case{Format: format, Data: h, Entry: entry, Kind: "enum_header_matrix", BufSize: 64, Again: &C03Again{Data: h}}
				if !emit(c) {
					return
				}
			}
		}
		for _, h := range c03Hostile[format] {
			for _, entry := range c03Entries {
				c := &C03Case{Format: format, Data: []byte(h), Entry: entry, Kind: "enum_hostile", BufSize: 2}
				if len(h) > 1 {
					c.Cuts = []int{1}
				}
				if entry != "parsereader" {
					// the same instance is used again afterwards
					c.Again = &C03Again{Data: []byte(c02SmallDocs[format][0])}
				}
				if !emit(c) {
					return
				}
				if c.Again != nil {
					// ... and with an empty input in between
					c2 := *c
					c2.Again = &C03Again{Data: c.Again.Data, Empty: true}
					c = &c2
				}
				if !emit(c) {
					return
				}
			}
		}
	}
}

// ---- C02 (thorough): all 2^(n-1) cut subsets of small documents ----

var c02SmallDocs = map[string][]string{
	"json":   {`{"a":"\n"}`, `[1,"é",2]`, `"😀"`, `[-12.5e1]`, `{"":null}`, `tru`, `"\u12"`},
	"ubjson": {"{i\x02abSi\x01x}", "[#i\x02ZT", "[$i#i\x02\x01\x02", "{#i\x01i\x01aT", "[$S#i\x01i\x02ab", "{U\x02abI\x01\x00}", "[#S\x01"},
	"cborl":  {"\xa1\x62ab\x61x", "\x82\x19\x01\x00\x39\x01\x00", "\x9f\x42\x01\x02\xff", "\x78\x03abc\x00", "\xbf\x60\xf6\xff", "\x82\x01", "\xfa\x3f\x80\x00\x00"},
}

func enumC02Thorough(emit func(c any) bool) bool {
	if !gen.TierThorough() {
		return true
	}
	for _, format := range formatNames {
		for _, d := range c02SmallDocs[format] {
			doc := []byte(d)
			n := len(doc)
			if n > 13 {
				continue
			}
			for mask := 0; mask < 1<<(n-1); mask++ {
				var cuts []int
				for i := 1; i < n; i++ {
					if mask&(1<<(i-1)) != 0 {
						cuts = append(cuts, i)
					}
				}
				if !emit(&C02Case{Format: format, Doc: doc, Cuts: cuts, Kind: "enum_all_subsets", Spans: [][2]int{{0, n}}}) {
					return false
				}
			}
		}
	}
	return true
}

// ---- C05: every argument width for boundary values, in several contexts ----

func cborHead(major byte, v uint64, width int) []byte {
	switch width {
	case 0:
		return []byte{major<<5 | byte(v)}
	case 1:
		return []byte{major<<5 | 24, byte(v)}
	case 2:
		b := []byte{major<<5 | 25, 0, 0}
		binary.BigEndian.PutUint16(b[1:], uint16(v))
		return b
	case 4:
		b := []byte{major<<5 | 26, 0, 0, 0, 0}
		binary.BigEndian.PutUint32(b[1:], uint32(v))
		return b
	}
	b := []byte{major<<5 | 27, 0, 0, 0, 0, 0, 0, 0, 0}
	binary.BigEndian.PutUint64(b[1:], v)
	return b
}

func widthHolds(width int, v uint64) bool {
	switch width {
	case 0:
		return v < 24
	case 1:
		return v <= math.MaxUint8
	case 2:
		return v <= math.MaxUint16
	case 4:
		return v <= math.MaxUint32
	}
	return true
}

func enumC05(emit func(c any) bool) {
	vals := []uint64{0, 1, 23, 24, 25, 127, 128, 199, 255, 256, 32767, 32768, 65535, 65536, 1<<31 - 1, 1 << 31, 1<<32 - 1, 1 << 32, 1<<63 - 1, 1 << 63, math.MaxUint64}
	widths := []int{0, 1, 2, 4, 8}
	wrap := func(item []byte) [][]byte {
		return [][]byte{
			item,
			append([]byte{0x82}, append(append([]byte{}, item...), 0x01)...),                          // definite array, followed by a sibling
			append(append([]byte{0x9f}, item...), 0xf6, 0xff),                                         // indefinite array
			append(append([]byte{0xa2, 0x61, 'k'}, item...), 0x60, 0xf5),                              // definite map value, followed by a member
			append(append([]byte{0xbf, 0x61, 'k'}, item...), 0xff),                                    // indefinite map value
			append([]byte{0x81}, append([]byte{0x9f}, append(append([]byte{}, item...), 0xff)...)...), // indefinite inside definite
		}
	}
	for _, v := range vals {
		for _, w := range widths {
			if !widthHolds(w, v) {
				continue
			}
			for _, major := range []byte{0, 1} {
				for _, doc := range wrap(cborHead(major, v, w)) {
					if !emit(&DocCase{Doc: doc, Note: "enum int widths"}) {
						return
					}
				}
			}
		}
	}
	// lengths of strings / arrays / maps in every width
	for _, n := range []int{0, 1, 23, 24, 255, 256} {
		for _, w := range widths {
			if !widthHolds(w, uint64(n)) {
				continue
			}
			text := append(cborHead(3, uint64(n), w), make([]byte, n)...)
			for i := range text[len(text)-n:] {
				text[len(text)-n+i] = 'a' + byte(i%26)
			}
			bytesItem := append(cborHead(2, uint64(n), w), make([]byte, n)...)
			arr := cborHead(4, uint64(n), w)
			mp := cborHead(5, uint64(n), w)
			for i := 0; i < n; i++ {
				arr = append(arr, byte(i%24))
				mp = append(mp, 0x62, 'k', 'a'+byte(i%26), byte(i%24))
			}
			for _, item := range [][]byte{text, bytesItem, arr, mp} {
				for _, doc := range wrap(item) {
					if !emit(&DocCase{Doc: doc, Note: "enum length widths"}) {
						return
					}
				}
			}
		}
	}
	// every unsupported item in every context
	for _, u := range cborUnsupportedItems {
		for _, doc := range wrap(u) {
			if !emit(&DocCase{Doc: doc, Note: "enum unsupported"}) {
				return
			}
		}
	}
	for _, k := range cborNonTextKeys {
		doc := append(append([]byte{0xa1}, k...), 0x01)
		if !emit(&DocCase{Doc: doc, Note: "enum non-text key"}) {
			return
		}
	}
	// every tag number of the direct, one-byte and two-byte widths in front of a
	// small item at top level; the registered tag numbers (RFC 7049 2.4 and the IANA
	// registry, incl. 55799 "self-described CBOR") and the width boundaries in all
	// five widths, in front of three payloads, in every context
	for n := 0; n < 65536; n++ {
		for _, w := range widths {
			if w > 2 || !widthHolds(w, uint64(n)) {
				continue
			}
			if !emit(&DocCase{Doc: append(cborHead(6, uint64(n), w), 0x05), Note: "enum every tag"}) {
				return
			}
		}
	}
	registered := []uint64{0, 1, 2, 3, 4, 5, 16, 17, 18, 19, 21, 22, 23, 24, 25, 26, 27, 28, 29, 30, 32, 33, 34, 35, 36, 37, 38, 61, 96, 97, 98, 100, 255, 256, 258, 260, 261, 1001, 1004, 55799, 55800, 65535, 65536, 15309736, 1<<32 - 1, 1 << 32, 1<<63 - 1, math.MaxUint64}
	for _, n := range registered {
		for _, w := range widths {
			if !widthHolds(w, n) {
				continue
			}
			for _, payload := range [][]byte{{0x05}, {0x61, 'a'}, {0x80}, {0xa0}, {0x41, 0x00}, {0xfb, 0x3f, 0xf0, 0, 0, 0, 0, 0, 0}} {
				for _, doc := range wrap(append(cborHead(6, n, w), payload...)) {
					if !emit(&DocCase{Doc: doc, Note: "enum registered tags"}) {
						return
					}
				}
			}
		}
	}
	// every half float bit pattern and every simple value
	for n := 0; n < 65536; n++ {
		if !emit(&DocCase{Doc: []byte{0xf9, byte(n >> 8), byte(n)}, Note: "enum every half float"}) {
			return
		}
	}
	for n := 0; n < 256; n++ {
		for _, doc := range wrap([]byte{0xf8, byte(n)}) {
			if !emit(&DocCase{Doc: doc, Note: "enum every simple value"}) {
				return
			}
		}
		if n < 24 {
			for _, doc := range wrap([]byte{0xe0 | byte(n)}) {
				if !emit(&DocCase{Doc: doc, Note: "enum every simple value"}) {
					return
				}
			}
		}
	}
}

// ---- C18: small streams x every single read boundary x buffer sizes x EOF style ----

var c18EnumDocs = map[string][][]string{
	"json":   {{`{"a":[1,"x"]}`, `[true]`, `"s"`, `12`}, {`12`, `null`, `[]`}, {`{"k":"v"}`}},
	"ubjson": {{"{i\x01a[i\x01Si\x01x]}", "[#i\x01T", "Si\x01s", "[$i#i\x02\x01\x02"}, {"Z", "[#i\x00", "{#i\x01i\x01kT"}, {"[$Z#i\x02"}},
	"cborl":  {{"\xa1\x61a\x82\x01\x61x", "\x9f\xf5\xff", "\x61s", "\x18\x18"}, {"\x0c", "\xf6", "\x80"}, {"\xbf\x61k\x61v\xff"}},
}

func enumC18(emit func(c any) bool) {
	for _, format := range formatNames {
		for _, docs := range c18EnumDocs[format] {
			c0 := &C18Case{Format: format}
			for i, d := range docs {
				c0.Docs = append(c0.Docs, []byte(d))
				if format == "json" {
					sep := []byte{}
					if i > 0 {
						sep = []byte(" ")
					}
					c0.Seps = append(c0.Seps, sep)
				}
			}
			stream, _ := c0.stream()
			// byte-slice decoder
			bc := *c0
			bc.Bytes = true
			if !emit(&bc) {
				return
			}
			for _, bs := range []int{1, 2, 3, 64} {
				for _, eof := range []bool{false, true} {
					for cut := 0; cut < len(stream); cut++ {
						for _, zr := range []int{0, 1} {
							c := *c0
							c.BufSize, c.EOFData, c.ZeroReads = bs, eof, zr
							if cut > 0 {
								c.Cuts = []int{cut}
							}
							if !emit(&c) {
								return
							}
						}
					}
					// truncation at every position inside the last document
					last := len(docs[len(docs)-1])
					for tr := 1; tr < last; tr++ {
						c := *c0
						c.BufSize, c.EOFData, c.Truncate = bs, eof, tr
						if !emit(&c) {
							return
						}
					}
				}
			}
		}
	}
}

var _ = ref.OK
