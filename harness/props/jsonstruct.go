package props

// A lenient JSON tokenizer + structure validator used by C04's "must reject"
// oracle: only token sequences whose bracket/comma/colon *structure* is wrong
// must be rejected; spelling leniencies inside a token (01, +1, .5) are not
// structure and carry no obligation.

type jtok byte

const (
	jtStr jtok = 's'
	jtNum jtok = 'n'
	jtLit jtok = 'l'
)

// jsonTokens splits text into tokens. ok is false when a token is not
// recognisable (unterminated string aside, which is a truncation = structure
// error and reported as token 'U').
func jsonTokens(text []byte) (toks []jtok, ok bool) {
	i := 0
	for i < len(text) {
		c := text[i]
		switch {
		case c == ' ' || c == '\t' || c == '\n' || c == '\r':
			i++
		case c == '{' || c == '}' || c == '[' || c == ']' || c == ',' || c == ':':
			toks = append(toks, jtok(c))
			i++
		case c == '"':
			j := i + 1
			closed := false
			for j < len(text) {
				if text[j] == '\\' {
					j += 2
					continue
				}
				if text[j] == '"' {
					closed = true
					break
				}
				if text[j] < 0x20 {
					return toks, false
				}
				j++
			}
			if !closed {
				toks = append(toks, 'U')
				return toks, true
			}
			toks = append(toks, jtStr)
			i = j + 1
		default:
			j := i
			for j < len(text) && !isJSONStop(text[j]) {
				j++
			}
			word := string(text[i:j])
			switch {
			case word == "true" || word == "false" || word == "null":
				toks = append(toks, jtLit)
			case isNumberish(word):
				toks = append(toks, jtNum)
			default:
				return toks, false
			}
			i = j
		}
	}
	return toks, true
}

func isJSONStop(c byte) bool {
	switch c {
	case ' ', '\t', '\n', '\r', ',', ']', '}', '[', '{', ':', '"':
		return true
	}
	return false
}

func isNumberish(w string) bool {
	if w == "" {
		return false
	}
	digit := false
	for i := 0; i < len(w); i++ {
		c := w[i]
		switch {
		case c >= '0' && c <= '9':
			digit = true
		case c == '-' || c == '+' || c == '.' || c == 'e' || c == 'E':
		default:
			return false
		}
	}
	return digit
}

// jsonStructureOK reports whether toks form a sequence of zero or more
// complete JSON values.
func jsonStructureOK(toks []jtok) bool {
	pos := 0
	var value func(depth int) bool
	value = func(depth int) bool {
		if pos >= len(toks) || depth > 5000 {
			return false
		}
		t := toks[pos]
		switch t {
		case jtStr, jtNum, jtLit:
			pos++
			return true
		case '[':
			pos++
			if pos < len(toks) && toks[pos] == ']' {
				pos++
				return true
			}
			for {
				if !value(depth + 1) {
					return false
				}
				if pos >= len(toks) {
					return false
				}
				if toks[pos] == ']' {
					pos++
					return true
				}
				if toks[pos] != ',' {
					return false
				}
				pos++
			}
		case '{':
			pos++
			if pos < len(toks) && toks[pos] == '}' {
				pos++
				return true
			}
			for {
				if pos+1 >= len(toks) || toks[pos] != jtStr || toks[pos+1] != ':' {
					return false
				}
				pos += 2
				if !value(depth + 1) {
					return false
				}
				if pos >= len(toks) {
					return false
				}
				if toks[pos] == '}' {
					pos++
					return true
				}
				if toks[pos] != ',' {
					return false
				}
				pos++
			}
		}
		return false
	}
	for pos < len(toks) {
		if !value(0) {
			return false
		}
	}
	return true
}
