package props

import (
	"errors"
	"fmt"

	structform "github.com/elastic/go-structform"
	"pgregory.net/rapid"

	"verif/harness/gen"
	"verif/harness/gomodel"
	"verif/harness/model"
)

// C16 — sink and visitor errors are reported to the caller, promptly and
// unchanged (fault enumeration: every fault position of every generated stream).

type C16Case struct {
	Target string     `json:"target"` // encoder | parser | fold | adapter
	Format string     `json:"format,omitempty"`
	Opts   EncOpts    `json:"opts"`
	Evs    []model.Ev `json:"evs,omitempty"`  // encoder, adapter
	Doc    []byte     `json:"doc,omitempty"`  // parser
	Cuts   []int      `json:"cuts,omitempty"` // parser: chunking for ParseReader / decoder
	Entry  string     `json:"entry,omitempty"`
	// EOFData (reader entry points): the reader returns its last bytes together with io.EOF
	EOFData bool    `json:"eof_with_data,omitempty"`
	Go      *GoCase `json:"go,omitempty"`
}

var errSink = errors.New("injected sink failure")
var errVisitor = errors.New("injected visitor failure")

// failWriter fails from the k-th Write (0-based) on and keeps failing.
type failWriter struct {
	k      int
	writes int
}

func (w *failWriter) Write(p []byte) (int, error) {
	n := w.writes
	w.writes++
	if w.k >= 0 && n >= w.k {
		return 0, errSink
	}
	return len(p), nil
}

func failAt(k int) func(int, model.Ev) error {
	return func(idx int, _ model.Ev) error {
		if idx >= k {
			return errVisitor
		}
		return nil
	}
}

// faultPositions lists the fault positions tried for a run of n steps: all of
// them up to 512 steps; beyond that (a few generated strings make the JSON
// encoder issue thousands of writes, and every position costs a full run) the
// first 256, the last 64 and an even stride through the middle.
func faultPositions(n int) []int {
	out := make([]int, 0, min(n, 512))
	if n <= 512 {
		for k := 0; k < n; k++ {
			out = append(out, k)
		}
		return out
	}
	for k := 0; k < 256; k++ {
		out = append(out, k)
	}
	stride := (n - 320) / 192
	if stride < 1 {
		stride = 1
	}
	for k := 256; k < n-64; k += stride {
		out = append(out, k)
	}
	for k := n - 64; k < n; k++ {
		out = append(out, k)
	}
	return out
}

func checkC16(ci any, info *CaseInfo) string {
	c := ci.(*C16Case)
	info.Class("target:" + c.Target)
	switch c.Target {
	case "encoder":
		cd := codecs[c.Format]
		info.Class("format:" + c.Format)
		dry := &failWriter{k: -1}
		o := guard(func() error { _, err := model.Apply(c.Evs, cd.NewVisitor(dry, c.Opts)); return err })
		if o.Panicked() {
			return fmt.Sprintf("%s encoder panics: %v", c.Format, o.Panic)
		}
		if o.Err != nil {
			info.Class("dry_run_refused")
			return "" // e.g. non-finite float refused by JSON: nothing to inject
		}
		W := dry.writes
		info.NonTrivial = W > 1
		for _, k := range faultPositions(W) {
			info.Class("fault_positions")
			fw := &failWriter{k: k}
			o := guard(func() error { _, err := model.Apply(c.Evs, cd.NewVisitor(fw, c.Opts)); return err })
			if o.Panicked() {
				return fmt.Sprintf("%s encoder panics when write #%d of %d fails: %v\n%s", c.Format, k, W, o.Panic, o.Stack)
			}
			if o.Err == nil {
				return fmt.Sprintf("%s encoder: the io.Writer fails from write #%d (of %d) on, yet every one of the %d events returned nil — the failure is lost silently (stream %v)", c.Format, k, W, len(c.Evs), truncEvs(c.Evs))
			}
		}
	case "parser":
		cd := codecs[c.Format]
		info.Class("format:" + c.Format)
		info.Class("entry:" + c.Entry)
		run := func(rec *model.Recorder) Outcome {
			switch c.Entry {
			case "parsereader":
				return guard(func() error {
					_, err := cd.ParseReader(&chunkReader{chunks: cloneChunks(gen.Split(c.Doc, c.Cuts)), eofWithData: c.EOFData}, rec)
					return err
				})
			case "decoder":
				return guard(func() error {
					dec := cd.NewDecoder(&chunkReader{chunks: cloneChunks(gen.Split(c.Doc, c.Cuts)), eofWithData: c.EOFData}, 16, rec)
					for i := 0; i < len(c.Doc)+3; i++ {
						if err := dec.Next(); err != nil {
							return err
						}
					}
					return nil
				})
			}
			return guard(func() error { return cd.Parse(c.Doc, rec) })
		}
		dry := &model.Recorder{}
		o := run(dry)
		if o.Panicked() {
			return fmt.Sprintf("%s parser panics on %x: %v", c.Format, trunc(c.Doc), o.Panic)
		}
		N := dry.N
		info.NonTrivial = N >= 2
		for _, k := range faultPositions(N) {
			info.Class("fault_positions")
			rec := &model.Recorder{Hook: failAt(k)}
			o := run(rec)
			if o.Panicked() {
				return fmt.Sprintf("%s %s panics when the visitor fails at event #%d: %v\n%s", c.Format, c.Entry, k, o.Panic, o.Stack)
			}
			if o.Err == nil {
				return fmt.Sprintf("%s %s on %q: the visitor returned an error at event #%d (of %d) but the call reports success", c.Format, c.Entry, trunc(c.Doc), k, N)
			}
			if !errors.Is(o.Err, errVisitor) {
				return fmt.Sprintf("%s %s on %q: the visitor's error at event #%d comes back as a different error: %v", c.Format, c.Entry, trunc(c.Doc), k, o.Err)
			}
			if rec.N > k+1 {
				return fmt.Sprintf("%s %s on %q (cuts %v): the visitor failed at event #%d but received %d further event(s)", c.Format, c.Entry, trunc(c.Doc), truncInts(c.Cuts), k, rec.N-k-1)
			}
		}
	case "fold":
		_, rv, err := c.Go.build()
		if err != nil {
			return err.Error()
		}
		dry := &model.Recorder{}
		o := foldTo(rv, dry)
		if o.Panicked() {
			return fmt.Sprintf("Fold panics: %v", o.Panic)
		}
		if o.Err != nil {
			info.Class("dry_run_refused")
			return ""
		}
		N := dry.N
		info.NonTrivial = N >= 2
		for _, k := range faultPositions(N) {
			info.Class("fault_positions")
			rec := &model.Recorder{Hook: failAt(k)}
			o := foldTo(rv, rec)
			if o.Panicked() {
				return fmt.Sprintf("Fold panics when the visitor fails at event #%d for %s: %v\n%s", k, describeGo(c.Go, rv), o.Panic, o.Stack)
			}
			if o.Err == nil {
				return fmt.Sprintf("Fold of %s: the visitor returned an error at event #%d (of %d) but Fold reports success", describeGo(c.Go, rv), k, N)
			}
			if !errors.Is(o.Err, errVisitor) {
				return fmt.Sprintf("Fold of %s: the visitor's error at event #%d comes back as a different error: %v", describeGo(c.Go, rv), k, o.Err)
			}
			if rec.N > k+1 {
				return fmt.Sprintf("Fold of %s: the visitor failed at event #%d but received %d further event(s)", describeGo(c.Go, rv), k, rec.N-k-1)
			}
		}
	case "adapter":
		dry := &model.Recorder{}
		o := guard(func() error { _, err := model.Apply(c.Evs, plainVisitor{dry}); return err })
		if o.Panicked() || o.Err != nil {
			return fmt.Sprintf("adapter dry run fails: %v", o)
		}
		N := dry.N
		info.NonTrivial = N >= 2
		for _, k := range faultPositions(N) {
			info.Class("fault_positions")
			rec := &model.Recorder{Hook: failAt(k)}
			o := guard(func() error { _, err := model.Apply(c.Evs, plainVisitor{rec}); return err })
			if o.Panicked() {
				return fmt.Sprintf("extended-event adapter panics when the visitor fails at event #%d: %v", k, o.Panic)
			}
			if o.Err == nil || !errors.Is(o.Err, errVisitor) {
				return fmt.Sprintf("extended-event adapter: the visitor failed at event #%d (of %d) but the extended call returned %v (stream %v)", k, N, o.Err, truncEvs(c.Evs))
			}
			if rec.N > k+1 {
				return fmt.Sprintf("extended-event adapter: the visitor failed at event #%d but received %d further event(s) (stream %v)", k, rec.N-k-1, truncEvs(c.Evs))
			}
		}
	default:
		return "harness: unknown target"
	}
	return ""
}

var _ structform.Visitor = plainVisitor{}

func drawC16(t *rapid.T) any {
	switch w := rapid.IntRange(0, 9).Draw(t, "target"); {
	case w < 4:
		c := &C16Case{Target: "encoder", Format: rapid.SampledFrom(formatNames).Draw(t, "format")}
		if c.Format == "json" {
			c.Opts = drawOpts(t)
		}
		c.Evs, _ = gen.Stream(t, gen.StreamCfg{Ext: true, Refs: true, Budget: 40, ExtHeavy: true})
		return c
	case w < 7:
		c := &C16Case{Target: "parser", Format: rapid.SampledFrom(formatNames).Draw(t, "format")}
		c.Entry = rapid.SampledFrom([]string{"parse", "parsereader", "decoder"}).Draw(t, "entry")
		d := validDoc(t, c.Format, c.Entry == "decoder")
		if len(d.Bytes) > 400 {
			d = foreignDoc(t, c.Format, true)
		}
		c.Doc = d.Bytes
		if c.Entry != "parse" {
			c.Cuts = gen.Cuts(t, len(c.Doc), d.Spans)
			c.EOFData = rapid.Bool().Draw(t, "eofdata")
		}
		return c
	case w < 9:
		return &C16Case{Target: "fold", Go: drawGoCase(t, gomodel.TypeCfg{Tags: true, Pool: true, FoldOnly: true, Arrays: true}, gomodel.ValCfg{Budget: 30})}
	default:
		c := &C16Case{Target: "adapter"}
		c.Evs, _ = gen.Stream(t, gen.StreamCfg{Ext: true, Refs: true, Budget: 30, ExtHeavy: true})
		return c
	}
}

func enumC16(emit func(c any) bool) {
	// chains of empty announced containers that END the stream: the failing write
	// is then the last one of the document and only the event issuing it can
	// report it
	for _, kinds := range [][]string{{"a"}, {"o"}, {"a", "a"}, {"a", "o"}, {"o", "a"}, {"o", "o"}, {"a", "o", "a"}, {"o", "a", "o"}} {
		for _, innerLen := range []int{0, -1} {
			var stream, closers []model.Ev
			for i, k := range kinds {
				l := 1
				if i == len(kinds)-1 {
					l = innerLen
				}
				if i > 0 && kinds[i-1] == "o" {
					stream = append(stream, model.Ev{K: model.KKey, S: []byte("k")})
				}
				if k == "a" {
					stream = append(stream, model.Ev{K: model.KArrStart, L: l})
					closers = append([]model.Ev{{K: model.KArrEnd}}, closers...)
				} else {
					stream = append(stream, model.Ev{K: model.KObjStart, L: l})
					closers = append([]model.Ev{{K: model.KObjEnd}}, closers...)
				}
			}
			stream = append(stream, closers...)
			for _, f := range formatNames {
				if !emit(&C16Case{Target: "encoder", Format: f, Evs: stream}) {
					return
				}
			}
		}
	}
	// every extended event, empty and non-empty, through every encoder and the adapters
	for _, size := range []int{0, 2} {
		var events []model.Ev
		for _, k := range model.ArrElemKinds {
			events = append(events, model.Ev{K: "a:" + k, E: c10Elems(k, size)})
		}
		events = append(events, model.Ev{K: model.KBytes, S: []byte{1, 2}[:size]})
		for _, k := range model.ObjElemKinds {
			e := model.Ev{K: "o:" + k, E: c10Elems(k, size)}
			for i := 0; i < size; i++ {
				e.Keys = append(e.Keys, []byte([]string{"k", "é"}[i]))
			}
			events = append(events, e)
		}
		for _, ev := range events {
			stream := []model.Ev{{K: model.KArrStart, L: 2}, ev, {K: model.KStr, S: []byte("s\"")}, {K: model.KArrEnd}}
			for _, f := range formatNames {
				if !emit(&C16Case{Target: "encoder", Format: f, Evs: stream, Opts: EncOpts{IgnoreInvalidFloat: true}}) {
					return
				}
			}
			if !emit(&C16Case{Target: "adapter", Evs: stream}) {
				return
			}
		}
	}
	// parsers: fixed documents x every entry point x {whole, one cut} x {data before EOF, data with EOF}
	for _, f := range formatNames {
		for _, d := range c18EnumDocs[f][0] {
			for _, entry := range []string{"parse", "parsereader", "decoder"} {
				for _, eof := range []bool{false, true} {
					for _, cuts := range [][]int{nil, {len(d) / 2}} {
						if entry == "parse" && (eof || cuts != nil) || cuts != nil && cuts[0] == 0 {
							continue
						}
						if !emit(&C16Case{Target: "parser", Format: f, Doc: []byte(d), Entry: entry, Cuts: cuts, EOFData: eof}) {
							return
						}
					}
				}
			}
		}
	}
	// every scalar kind through every encoder
	for _, k := range plainKinds {
		var e model.Ev
		switch k {
		case model.KStr, model.KStrRef:
			e = model.Ev{K: k, S: []byte("a\"\n<é\xff b")}
		default:
			e = model.Ev{K: k, I: -77, U: 200, F: 0x3ff8000000000000, B: true}
			if k == model.KF32 {
				e.F = 0x3fc00000
			}
		}
		stream := []model.Ev{{K: model.KObjStart, L: -1}, {K: model.KKey, S: []byte("k\"")}, e, {K: model.KKeyRef, S: []byte("r")}, e, {K: model.KObjEnd}}
		for _, f := range formatNames {
			if !emit(&C16Case{Target: "encoder", Format: f, Evs: stream, Opts: EncOpts{EscapeHTML: true}}) {
				return
			}
		}
	}
}

var plainKinds = []string{model.KNil, model.KBool, model.KStr, model.KStrRef, model.KI8, model.KI16, model.KI32, model.KI64, model.KInt, model.KByte, model.KU8, model.KU16, model.KU32, model.KU64, model.KUint, model.KF32, model.KF64}

func init() {
	register(&Property{
		ID:    "C16",
		Rule:  "per generated case EVERY fault position is tried (runs of more than 512 steps: the first 256, the last 64 and an even stride of 192 through the middle): encoders (json, cborl, ubjson) with an io.Writer failing from the k-th Write on, for every k < number of writes of the dry run; parsers ({Parse, ParseReader over chunks, pull decoder}; readers return their last bytes before or together with io.EOF), Fold over generated Go values and the extended-event adapters with a visitor returning a sentinel at event k, for every k < number of events; oracle = some call returns a non-nil error (encoders) / the outermost call returns an error that is the sentinel (errors.Is) and no event follows the failing one; deterministic part: fixed documents x every parser entry point x {whole, one cut} x {data before EOF, data with EOF}, chains of empty announced containers ending the stream, every extended event (empty and non-empty) and every scalar kind through every encoder and the adapters; non-trivial = more than one fault position in the case; distinct by case hash; the class counter fault_positions counts the injected faults",
		New:   func() any { return &C16Case{} },
		Draw:  drawC16,
		Check: checkC16,
		Enum:  enumC16,
	})
}
