package props

import (
	"fmt"
	"io"

	"pgregory.net/rapid"

	"verif/harness/gen"
	"verif/harness/model"
)

// C18 — pull decoders deliver one top-level value per Next and then io.EOF.

type C18Case struct {
	Format   string   `json:"format"`
	Docs     [][]byte `json:"docs"`           // k complete top-level values
	Seps     [][]byte `json:"seps,omitempty"` // JSON: whitespace before doc i (and one trailing entry)
	Bytes    bool     `json:"bytes_decoder,omitempty"`
	Cuts     []int    `json:"cuts,omitempty"` // reader: read boundaries over the concatenated stream
	EOFData  bool     `json:"eof_with_data,omitempty"`
	BufSize  int      `json:"bufsize,omitempty"`
	Truncate int      `json:"truncate,omitempty"` // >0: cut that many bytes off the end (inside the last value)
	// ZeroReads > 0: the reader answers one Read with (0, nil) before every
	// ZeroReads-th Read that returns data or io.EOF
	ZeroReads int `json:"zero_reads,omitempty"`
}

func (c *C18Case) stream() ([]byte, []int) {
	var out []byte
	var bounds []int
	for i, d := range c.Docs {
		if i < len(c.Seps) {
			out = append(out, c.Seps[i]...)
		}
		out = append(out, d...)
		bounds = append(bounds, len(out))
	}
	if len(c.Seps) > len(c.Docs) {
		out = append(out, c.Seps[len(c.Docs)]...)
	}
	return out, bounds
}

func checkC18(ci any, info *CaseInfo) string {
	c := ci.(*C18Case)
	cd := codecs[c.Format]
	if cd == nil {
		return "harness: unknown format"
	}
	// expected events per document: one-shot Parse of the document alone
	var exp [][]model.Ev
	for i, d := range c.Docs {
		rec := &model.Recorder{}
		o := guard(func() error { return cd.Parse(d, rec) })
		if o.Panicked() || o.Err != nil {
			return fmt.Sprintf("%s: one-shot Parse of document #%d %q fails: %v (a C04-C06 matter; the case expects valid documents)", c.Format, i, trunc(d), o)
		}
		if _, err := model.Tree(rec.Evs); err != nil {
			return fmt.Sprintf("%s: document #%d %q does not hold exactly one value: %v", c.Format, i, trunc(d), err)
		}
		exp = append(exp, rec.Evs)
	}
	stream, bounds := c.stream()
	truncated := c.Truncate > 0 && len(c.Docs) > 0 && c.Truncate < len(c.Docs[len(c.Docs)-1])
	if truncated {
		// cut inside the last value (trailing separator dropped too)
		stream = stream[:bounds[len(bounds)-1]-c.Truncate]
		if !needsMoreInput(c.Format, stream[boundsStart(bounds, c.Seps, c.Docs):]) {
			truncated = false // the prefix happens to be complete (or is a number prefix): no obligation
			info.Class("truncation_not_applicable")
			return ""
		}
	}
	splitsToken := false
	onBoundary := false
	for _, cut := range c.Cuts {
		isB := false
		for _, b := range bounds {
			if cut == b {
				isB = true
			}
		}
		if isB {
			onBoundary = true
		} else {
			splitsToken = true
		}
	}
	info.NonTrivial = len(c.Docs) >= 2 || (!c.Bytes && (splitsToken || onBoundary)) || truncated
	info.Class("format:" + c.Format)
	info.Class(fmt.Sprintf("k=%d", len(c.Docs)))
	if c.Bytes {
		info.Class("bytes_decoder")
	} else {
		info.Class("reader_decoder")
		if onBoundary {
			info.Class("read_boundary_on_document_boundary")
		}
	}
	if truncated {
		info.Class("truncated")
	}

	rec := &model.Recorder{}
	var dec pullDecoder
	if c.Bytes {
		dec = cd.NewBytesDecoder(append([]byte{}, stream...), rec)
	} else {
		bs := c.BufSize
		if bs <= 0 {
			bs = 64
		}
		dec = cd.NewDecoder(&chunkReader{chunks: cloneChunks(gen.Split(stream, c.Cuts)), eofWithData: c.EOFData, zeroEvery: c.ZeroReads}, bs, rec)
		if c.ZeroReads > 0 {
			info.Class("reader:zero_length_reads")
		}
	}
	desc := fmt.Sprintf("%s decoder (bytes=%v buf=%d cuts=%v eofWithData=%v) over %d documents %q", c.Format, c.Bytes, c.BufSize, truncInts(c.Cuts), c.EOFData, len(c.Docs), trunc(stream))
	k := len(c.Docs)
	full := k
	if truncated {
		full = k - 1
	}
	for i := 0; i < full; i++ {
		rec.Reset()
		o := guard(dec.Next)
		if o.Panicked() {
			return fmt.Sprintf("%s: Next #%d panics: %v\n%s", desc, i+1, o.Panic, o.Stack)
		}
		if o.Err != nil {
			return fmt.Sprintf("%s: Next #%d returns %v, but document #%d is complete", desc, i+1, o.Err, i+1)
		}
		if j, ok := evsEqual(exp[i], rec.Evs); !ok {
			return fmt.Sprintf("%s: Next #%d delivered other events than document #%d holds: event %d is %s, expected %s (delivered %d events, expected %d)", desc, i+1, i+1, j, evAt(rec.Evs, j), evAt(exp[i], j), len(rec.Evs), len(exp[i]))
		}
	}
	rec.Reset()
	if truncated {
		// some later Next must fail with an error that is not io.EOF
		for n := 0; n < len(stream)+3; n++ {
			o := guard(dec.Next)
			if o.Panicked() {
				return fmt.Sprintf("%s: Next panics on the truncated last value: %v\n%s", desc, o.Panic, o.Stack)
			}
			if o.Err == io.EOF {
				return fmt.Sprintf("%s: the stream ends inside value #%d but Next reports a clean io.EOF", desc, k)
			}
			if o.Err != nil {
				return ""
			}
			// a nil result while the value is incomplete
			return fmt.Sprintf("%s: the stream ends inside value #%d but Next reports a complete value", desc, k)
		}
		return ""
	}
	o := guard(dec.Next)
	if o.Panicked() {
		return fmt.Sprintf("%s: Next #%d (end of stream) panics: %v\n%s", desc, k+1, o.Panic, o.Stack)
	}
	if o.Err != io.EOF {
		return fmt.Sprintf("%s: Next #%d returns %v at the end of the stream, want io.EOF", desc, k+1, o.Err)
	}
	if len(rec.Evs) != 0 {
		return fmt.Sprintf("%s: Next #%d returned io.EOF but delivered %d events (%s ...)", desc, k+1, len(rec.Evs), rec.Evs[0])
	}
	return ""
}

// boundsStart: offset at which the last document starts in the stream.
func boundsStart(bounds []int, seps, docs [][]byte) int {
	n := len(bounds)
	return bounds[n-1] - len(docs[n-1])
}

func drawC18(t *rapid.T) any {
	c := &C18Case{Format: rapid.SampledFrom(formatNames).Draw(t, "format")}
	k := rapid.IntRange(0, 5).Draw(t, "k")
	for i := 0; i < k; i++ {
		// JSON top-level scalars need a separator; other formats are self-delimiting
		container := rapid.IntRange(0, 2).Draw(t, "container") > 0
		d := validDoc(t, c.Format, container)
		if len(d.Bytes) > 600 {
			d = foreignDoc(t, c.Format, true)
		}
		c.Docs = append(c.Docs, d.Bytes)
		if c.Format == "json" {
			sep := []byte{}
			if i > 0 {
				sep = []byte(rapid.SampledFrom([]string{" ", "\n", "\r\n", "\t ", "  "}).Draw(t, "sep"))
			} else if rapid.Bool().Draw(t, "leadws") {
				sep = []byte(" ")
			}
			c.Seps = append(c.Seps, sep)
		}
	}
	if c.Format == "json" && k > 0 && rapid.Bool().Draw(t, "trailws") {
		c.Seps = append(c.Seps, []byte("\n"))
	}
	stream, bounds := c.stream()
	c.Bytes = rapid.IntRange(0, 3).Draw(t, "bytesdec") == 0
	if !c.Bytes {
		c.BufSize = rapid.SampledFrom([]int{1, 2, 3, 5, 8, 16, 64, 512, 4096}).Draw(t, "bufsize")
		c.EOFData = rapid.Bool().Draw(t, "eofdata")
		c.Cuts = gen.Cuts(t, len(stream), nil)
		if rapid.IntRange(0, 3).Draw(t, "zeroreads") == 0 {
			c.ZeroReads = rapid.IntRange(1, 3).Draw(t, "zeroevery")
		}
		// aim some read boundaries exactly at document boundaries
		if len(bounds) > 1 && rapid.Bool().Draw(t, "aimb") {
			b := bounds[rapid.IntRange(0, len(bounds)-2).Draw(t, "aimbi")]
			c.Cuts = append(c.Cuts, b)
			sortInts(c.Cuts)
			c.Cuts = dedupInts(c.Cuts)
		}
	}
	if k > 0 && rapid.IntRange(0, 4).Draw(t, "trunc") == 4 {
		last := c.Docs[k-1]
		if len(last) >= 2 {
			c.Truncate = rapid.IntRange(1, len(last)-1).Draw(t, "truncn")
			// cuts beyond the truncated stream are dropped by Split
		}
	}
	return c
}

func sortInts(a []int) {
	for i := 1; i < len(a); i++ {
		for j := i; j > 0 && a[j] < a[j-1]; j-- {
			a[j], a[j-1] = a[j-1], a[j]
		}
	}
}

func dedupInts(a []int) []int {
	var out []int
	for i, x := range a {
		if i == 0 || x != a[i-1] {
			out = append(out, x)
		}
	}
	return out
}

func init() {
	register(&Property{
		ID:    "C18",
		Rule:  "k in 0..5 valid documents (own and foreign producers; JSON whitespace-separated incl. top-level scalars) x {NewBytesDecoder, NewDecoder(reader)} x reader schedules (read sizes from the chunk generator, boundaries aimed at document boundaries, data returned with or before io.EOF) x buffer sizes 1..4096 x 1 in 4 readers that answer a Read with (0, nil) before every 1st..3rd data read x optional truncation inside the last value; oracle = Next #i succeeds with exactly the events of document i (one-shot Parse), Next #k+1 = io.EOF with no events, a truncated last value ends in an error other than io.EOF; deterministic part: 9 small streams x every single read boundary x buffer sizes {1,2,3,64} x {data with EOF, data before EOF} x {no, every} zero-length read and every truncation position of the last document; non-trivial = k>=2, or a read boundary inside a token / on a document boundary, or a truncated stream; distinct by case hash",
		New:   func() any { return &C18Case{} },
		Draw:  drawC18,
		Check: checkC18,
		Enum:  enumC18,
	})
}
