package props

import (
	"bytes"
	"fmt"
	"io"
	"reflect"

	structform "github.com/elastic/go-structform"
	"github.com/elastic/go-structform/cborl"
	"github.com/elastic/go-structform/gotype"
	sfjson "github.com/elastic/go-structform/json"
	"github.com/elastic/go-structform/ubjson"
	"pgregory.net/rapid"

	"verif/harness/gen"
	"verif/harness/gomodel"
	"verif/harness/model"
)

// C17 — a reused parser, encoder, iterator or unfolder behaves like a fresh one.

type C17Case struct {
	Kind     string       `json:"kind"` // encoder | parser | decoder | iterator | unfolder
	Format   string       `json:"format,omitempty"`
	Opts     EncOpts      `json:"opts"`
	Streams  [][]model.Ev `json:"streams,omitempty"`       // encoder
	Docs     [][]byte     `json:"docs,omitempty"`          // parser, decoder
	UseParse []bool       `json:"use_parse,omitempty"`     // parser: Parser.Parse (true) or Write (false) per document
	Reader   bool         `json:"reader,omitempty"`        // decoder: NewDecoder(reader) instead of NewBytesDecoder
	EOFData  bool         `json:"eof_with_data,omitempty"` // decoder over a reader: the last bytes arrive together with io.EOF
	Cuts     []int        `json:"cuts,omitempty"`
	BufSize  int          `json:"bufsize,omitempty"`
	Gos      []GoCase     `json:"gos,omitempty"` // iterator, unfolder
	// KeyCache > 0: the reused unfolder has its key cache enabled with that
	// capacity (the new unfolder it is compared with has none)
	KeyCache int `json:"key_cache,omitempty"`
}

type parseMethod interface {
	Parse([]byte) error
}

// parserDepthIdle asserts the *nesting stacks* only; token buffers (json
// literal buffer, collect buffers) are not nesting stacks and a stale byte in
// them is judged by the differential comparison of the next document instead.
func parserDepthIdle(p any) string {
	switch v := p.(type) {
	case *sfjson.Parser:
		if a, _ := v.VerifDepth(); a != 0 {
			return fmt.Sprintf("json parser state stack not idle: states=%d", a)
		}
	case *cborl.Parser:
		if a, b, _ := v.VerifDepth(); a != 0 || b != 0 {
			return fmt.Sprintf("cborl parser stacks not idle: state=%d length=%d", a, b)
		}
	case *ubjson.Parser:
		if a, b, c, _ := v.VerifDepth(); a != 0 || b != 0 || c != 0 {
			return fmt.Sprintf("ubjson parser stacks not idle: state=%d valueState=%d length=%d", a, b, c)
		}
	}
	return ""
}

func hasMultiKeyExtObj(evs []model.Ev) bool {
	for _, e := range evs {
		if e.IsExtObj() && len(e.E) > 1 {
			return true
		}
	}
	return false
}

func shapeOfEvs(evs []model.Ev) string {
	if len(evs) == 0 {
		return "empty"
	}
	e := evs[0]
	switch {
	case e.IsExt():
		return "ext:" + e.K
	case e.K == model.KArrStart, e.K == model.KObjStart:
		return fmt.Sprintf("%s/%d/%d", e.K, e.L, e.T)
	}
	return e.K
}

func checkC17(ci any, info *CaseInfo) string {
	c := ci.(*C17Case)
	info.Class("kind:" + c.Kind)
	if c.Format != "" {
		info.Class("format:" + c.Format)
	}
	switch c.Kind {
	case "encoder":
		cd := codecs[c.Format]
		shapes := map[string]bool{}
		for _, s := range c.Streams {
			shapes[shapeOfEvs(s)] = true
		}
		info.NonTrivial = len(c.Streams) >= 2 && len(shapes) >= 2
		var buf bytes.Buffer
		vis := cd.NewVisitor(&buf, c.Opts)
		for i, evs := range c.Streams {
			buf.Reset()
			o := guard(func() error { _, err := model.Apply(evs, vis); return err })
			fresh, fo := encodeStream(cd, c.Opts, evs)
			if fo.Panicked() || o.Panicked() {
				return fmt.Sprintf("%s encoder panics on stream #%d: reused %v fresh %v", c.Format, i, o, fo)
			}
			if (o.Err == nil) != (fo.Err == nil) {
				return fmt.Sprintf("%s encoder: stream #%d of the history ends with %v on the reused instance and %v on a fresh one", c.Format, i, o, fo)
			}
			if o.Err != nil {
				// a refused document (non-finite float) leaves the instance mid-document: the history ends here
				info.Class("history_ended_by_refusal")
				return ""
			}
			if !bytes.Equal(buf.Bytes(), fresh) {
				same := false
				if hasMultiKeyExtObj(evs) {
					// Go map iteration order: compare the decoded values
					va, e1 := refDecodeOne(c.Format, buf.Bytes())
					vb, e2 := refDecodeOne(c.Format, fresh)
					same = e1 == nil && e2 == nil && model.Diff(va, vb, model.Rules{AllUnordered: true}) == ""
				}
				if !same {
					return fmt.Sprintf("%s encoder: after %d documents the reused instance writes %q (%x) for stream #%d %v, a fresh instance writes %q (%x)", c.Format, i, trunc(buf.Bytes()), trunc(buf.Bytes()), i, truncEvs(evs), trunc(fresh), trunc(fresh))
				}
			}
			if m := encoderDepthIdle(vis); m != "" {
				return fmt.Sprintf("%s encoder after complete document #%d (%v): %s", c.Format, i, truncEvs(evs), m)
			}
		}
	case "parser":
		cd := codecs[c.Format]
		info.NonTrivial = len(c.Docs) >= 2
		rec := &model.Recorder{}
		p := cd.NewParser(rec)
		for i, d := range c.Docs {
			rec.Reset()
			useParse := i < len(c.UseParse) && c.UseParse[i]
			o := guard(func() error {
				if useParse {
					return p.(parseMethod).Parse(append([]byte{}, d...))
				}
				_, err := p.Write(append([]byte{}, d...))
				return err
			})
			frec := &model.Recorder{}
			fp := cd.NewParser(frec)
			fo := guard(func() error {
				if useParse {
					return fp.(parseMethod).Parse(append([]byte{}, d...))
				}
				_, err := fp.Write(append([]byte{}, d...))
				return err
			})
			if o.Panicked() || fo.Panicked() || o.Class() != fo.Class() {
				return fmt.Sprintf("%s parser: document #%d %q ends with %v on the reused instance and %v on a fresh one", c.Format, i, trunc(d), o, fo)
			}
			if o.Err != nil {
				return fmt.Sprintf("harness: %s history document #%d %q is not valid: %v", c.Format, i, trunc(d), o.Err)
			}
			if j, ok := evsEqual(frec.Evs, rec.Evs); !ok {
				return fmt.Sprintf("%s parser: after %d documents the reused instance reports event #%d of document %q (%x) as %s, a fresh instance as %s", c.Format, i, j, trunc(d), trunc(d), evAt(rec.Evs, j), evAt(frec.Evs, j))
			}
			if m := parserDepthIdle(p); m != "" {
				return fmt.Sprintf("%s parser after complete document #%d %q (%x): %s", c.Format, i, trunc(d), trunc(d), m)
			}
		}
	case "decoder":
		cd := codecs[c.Format]
		info.NonTrivial = len(c.Docs) >= 2
		var stream []byte
		for _, d := range c.Docs {
			stream = append(stream, d...)
		}
		rec := &model.Recorder{}
		var dec pullDecoder
		if c.Reader {
			bs := c.BufSize
			if bs <= 0 {
				bs = 32
			}
			dec = cd.NewDecoder(&chunkReader{chunks: cloneChunks(gen.Split(stream, c.Cuts)), eofWithData: c.EOFData}, bs, rec)
		} else {
			dec = cd.NewBytesDecoder(append([]byte{}, stream...), rec)
		}
		for i, d := range c.Docs {
			rec.Reset()
			o := guard(dec.Next)
			frec := &model.Recorder{}
			fo := guard(cd.NewBytesDecoder(append([]byte{}, d...), frec).Next)
			if o.Panicked() || fo.Panicked() || o.Err != nil || fo.Err != nil {
				return fmt.Sprintf("%s decoder: document #%d %q: reused decoder %v, fresh decoder %v", c.Format, i, trunc(d), o, fo)
			}
			if j, ok := evsEqual(frec.Evs, rec.Evs); !ok {
				return fmt.Sprintf("%s decoder: after %d documents the reused decoder reports event #%d of %q as %s, a fresh one as %s", c.Format, i, j, trunc(d), evAt(rec.Evs, j), evAt(frec.Evs, j))
			}
		}
		// and at the end of the stream it says what a fresh decoder says on no input
		rec.Reset()
		o := guard(dec.Next)
		fo := guard(cd.NewBytesDecoder(nil, &model.Recorder{}).Next)
		if o.Panicked() || fo.Panicked() || (o.Err == nil) != (fo.Err == nil) || (o.Err == io.EOF) != (fo.Err == io.EOF) || len(rec.Evs) != 0 {
			return fmt.Sprintf("%s decoder: after all %d documents the reused decoder reports %v and %d events, a fresh decoder without input %v", c.Format, len(c.Docs), o, len(rec.Evs), fo)
		}
	case "iterator":
		info.NonTrivial = len(c.Gos) >= 2
		rec := &model.Recorder{}
		it, err := gotype.NewIterator(rec, foldOpts()...)
		if err != nil {
			return "harness: " + err.Error()
		}
		for i := range c.Gos {
			_, rv, err := c.Gos[i].build()
			if err != nil {
				return err.Error()
			}
			rec.Reset()
			o := guard(func() error { return it.Fold(rv.Interface()) })
			frec := &model.Recorder{}
			fo := foldTo(rv, frec)
			if o.Panicked() || fo.Panicked() || o.Class() != fo.Class() {
				return fmt.Sprintf("iterator: value #%d (%s) ends with %v on the reused iterator and %v on a fresh one", i, describeGo(&c.Gos[i], rv), o, fo)
			}
			if o.Err != nil {
				info.Class("history_ended_by_refusal")
				return ""
			}
			va, e1 := model.Tree(rec.Evs)
			vb, e2 := model.Tree(frec.Evs)
			if e1 != nil || e2 != nil {
				return fmt.Sprintf("iterator: malformed streams for value #%d: %v / %v", i, e1, e2)
			}
			if d := model.Diff(vb, va, model.Rules{AllUnordered: true}); d != "" {
				return fmt.Sprintf("iterator: after %d values the reused iterator emits another value for %s than a fresh one: %s", i, describeGo(&c.Gos[i], rv), d)
			}
		}
	case "unfolder":
		info.NonTrivial = len(c.Gos) >= 2
		var histTypes []reflect.Type
		for i := range c.Gos {
			if t, _, err := c.Gos[i].build(); err == nil {
				histTypes = append(histTypes, reflect.PointerTo(t))
			}
		}
		u, err := newUnfolder(nil, histTypes...)
		if err != nil {
			return "harness: " + err.Error()
		}
		if c.KeyCache > 0 {
			info.Class("unfolder_key_cache")
			u.EnableKeyCache(c.KeyCache)
		}
		for i := range c.Gos {
			g := &c.Gos[i]
			typ, rv, err := g.build()
			if err != nil {
				return err.Error()
			}
			target := reflect.New(typ)
			o := guard(func() error { return u.SetTarget(target.Interface()) })
			if o.Err != nil && !o.Panicked() {
				// a refused target type (duplicate member names, ...): a fresh unfolder must refuse too
				fo := guard(func() error { _, err := newUnfolder(reflect.New(typ).Interface()); return err })
				if fo.Err != nil && !fo.Panicked() {
					info.Class("history_ended_by_refusal")
					return ""
				}
			}
			if o.Panicked() || o.Err != nil {
				return fmt.Sprintf("unfolder: SetTarget for value #%d (%s) on the reused unfolder: %v (a fresh unfolder accepts the type)", i, describeGo(g, rv), o)
			}
			o = c17Feed(g, rv, u)
			ftarget, _, fo := roundTrip(g.Route, typ, rv)
			if o.Panicked() || fo.Panicked() || o.Class() != fo.Class() {
				return fmt.Sprintf("unfolder: value #%d (%s via %s) ends with %v on the reused unfolder and %v on a fresh one", i, describeGo(g, rv), g.Route, o, fo)
			}
			if o.Err != nil {
				return fmt.Sprintf("harness: unfolder history value #%d fails on both: %v", i, o.Err)
			}
			va, e1 := gomodel.FoldModel(target.Elem())
			vb, e2 := gomodel.FoldModel(ftarget.Elem())
			if e1 != nil || e2 != nil {
				return fmt.Sprintf("harness: model failed: %v %v", e1, e2)
			}
			if d := model.Diff(vb, va, model.Rules{AnyNaN: true}); d != "" {
				return fmt.Sprintf("unfolder: after %d documents the reused unfolder (after SetTarget) builds another value for %s via %s than a fresh one: %s", i, describeGo(g, rv), g.Route, d)
			}
			if d := u.VerifDepths(); d != [7]int{} {
				return fmt.Sprintf("unfolder after complete document #%d (%s via %s): stacks not idle: %v", i, describeGo(g, rv), g.Route, d)
			}
		}
	default:
		return "harness: unknown kind"
	}
	return ""
}

func c17Feed(g *GoCase, rv reflect.Value, u structform.Visitor) Outcome {
	if g.Route == "direct" || g.Route == "" {
		return foldTo(rv, u)
	}
	cd := codecs[g.Route]
	var buf bytes.Buffer
	o := foldTo(rv, cd.NewVisitor(&buf, EncOpts{}))
	if o.Panicked() || o.Err != nil {
		return o
	}
	data := buf.Bytes()
	return guard(func() error { return cd.Parse(data, u) })
}

func drawC17(t *rapid.T) any {
	kind := rapid.SampledFrom([]string{"encoder", "encoder", "parser", "parser", "decoder", "iterator", "unfolder"}).Draw(t, "kind")
	c := &C17Case{Kind: kind}
	n := rapid.IntRange(2, 5).Draw(t, "hist")
	switch kind {
	case "encoder":
		c.Format = rapid.SampledFrom(formatNames).Draw(t, "format")
		if c.Format == "json" {
			c.Opts = drawOpts(t)
			c.Opts.IgnoreInvalidFloat = true
		}
		for i := 0; i < n; i++ {
			evs, _ := gen.Stream(t, gen.StreamCfg{Ext: true, Refs: true, Budget: 30, ExtHeavy: true})
			c.Streams = append(c.Streams, evs)
		}
	case "parser", "decoder":
		c.Format = rapid.SampledFrom(formatNames).Draw(t, "format")
		for i := 0; i < n; i++ {
			useParse := kind == "parser" && rapid.Bool().Draw(t, "useparse")
			c.UseParse = append(c.UseParse, useParse)
			// without an end-of-input signal only self-delimiting documents are complete
			container := !useParse
			d := validDoc(t, c.Format, container)
			if len(d.Bytes) > 500 {
				d = foreignDoc(t, c.Format, true)
			}
			c.Docs = append(c.Docs, d.Bytes)
		}
		if kind == "decoder" {
			c.Reader = rapid.Bool().Draw(t, "reader")
			if c.Reader {
				total := 0
				for _, d := range c.Docs {
					total += len(d)
				}
				c.Cuts = gen.Cuts(t, total, nil)
				c.BufSize = rapid.SampledFrom([]int{1, 3, 16, 64, 1024, 8192}).Draw(t, "bufsize")
				c.EOFData = rapid.Bool().Draw(t, "eofdata")
				if rapid.IntRange(0, 3).Draw(t, "oneread") == 0 {
					// everything in one read
					c.Cuts, c.BufSize = nil, 8192
				}
			}
		}
	case "iterator":
		c.Gos = drawGoHistory(t, n, gomodel.TypeCfg{Tags: true, Pool: true, FoldOnly: true, Arrays: true, Recursive: !genExcludedRecursive()},
			func() gomodel.ValCfg { return gomodel.ValCfg{Budget: 25} })
	case "unfolder":
		if rapid.IntRange(0, 5).Draw(t, "userhist") == 0 {
			// a type with a user unfolder (primitive, processing, stateful,
			// Expander) reached through different lookups on one instance: as
			// target, through pointers, as element and as field, in drawn order
			var names []string
			for _, p := range gomodel.Pool {
				if p.NeedsUnfoldOpts || p.Name == "ExpInt" || p.Name == "ExpPair" {
					names = append(names, p.Name)
				}
			}
			b := gomodel.TypeDesc{Kind: "pool", Pool: rapid.SampledFrom(names).Draw(t, "usertype")}
			pb := gomodel.TypeDesc{Kind: "ptr", Elem: &b}
			shapes := []gomodel.TypeDesc{b, pb, {Kind: "slice", Elem: &b}, {Kind: "slice", Elem: &pb}, {Kind: "map", Elem: &b}, {Kind: "map", Elem: &pb},
				{Kind: "struct", Fields: []gomodel.FieldDesc{{Name: "A", Type: gomodel.TypeDesc{Kind: "int"}}, {Name: "P", Type: pb}, {Name: "V", Type: b}}}}
			for i := 0; i < n; i++ {
				td := shapes[rapid.IntRange(0, len(shapes)-1).Draw(t, "usershape")]
				typ, err := gomodel.Build(&td)
				if err != nil {
					t.Fatalf("harness: %v", err)
				}
				route := rapid.SampledFrom(routes).Draw(t, "route")
				g := GoCase{Type: td, Val: gomodel.DrawValue(t, typ, gomodel.ValCfg{Budget: 15, ValidUTF8: route == "json", Finite: route == "json", NoBigUint: route == "ubjson"}), Route: route}
				c.Gos = append(c.Gos, g)
			}
			if rapid.IntRange(0, 2).Draw(t, "keycache") == 0 {
				c.KeyCache = rapid.SampledFrom([]int{1, 2, 3, 8}).Draw(t, "keycachecap")
			}
			return c
		}
		var rs []string
		c.Gos = drawGoHistory(t, n, gomodel.TypeCfg{Tags: true, Pool: true, InlineOnlyStruct: true, Normalising: true, Recursive: !genExcludedRecursive()},
			func() gomodel.ValCfg {
				route := rapid.SampledFrom(routes).Draw(t, "route")
				rs = append(rs, route)
				return gomodel.ValCfg{Budget: 25, ValidUTF8: route == "json", Finite: route == "json", NoBigUint: route == "ubjson"}
			})
		for i := range c.Gos {
			c.Gos[i].Route = rs[i]
		}
		if rapid.IntRange(0, 2).Draw(t, "keycache") == 0 {
			c.KeyCache = rapid.SampledFrom([]int{1, 2, 3, 8}).Draw(t, "keycachecap")
		}
	}
	return c
}

// enumC17: constructed iterator histories. For every pool type P with a custom
// folder: M = struct{A int; F P inline} (and the variants with *P and with an
// inlined interface holding P) is folded (a) as the dynamic value of ANOTHER
// struct's inlined interface first and on its own afterwards, (b) the other way
// round, (c) inside a []interface{} next to the outer struct first. What an
// iterator compiles for a type in one position must serve every later position.
func enumC17(emit func(c any) bool) {
	ifc := gomodel.TypeDesc{Kind: "iface"}
	outer := gomodel.TypeDesc{Kind: "struct", Fields: []gomodel.FieldDesc{{Name: "Id", Type: gomodel.TypeDesc{Kind: "int"}}, {Name: "X", Tag: `struct:",inline"`, Type: ifc}}}
	for _, p := range gomodel.Pool {
		if !p.FoldOnly || p.Family {
			continue
		}
		b := gomodel.TypeDesc{Kind: "pool", Pool: p.Name}
		pb := gomodel.TypeDesc{Kind: "ptr", Elem: &b}
		for _, ft := range []gomodel.TypeDesc{b, pb} {
			m := gomodel.TypeDesc{Kind: "struct", Fields: []gomodel.FieldDesc{{Name: "A", Type: gomodel.TypeDesc{Kind: "int"}}, {Name: "F", Tag: `struct:",inline"`, Type: ft}}}
			mt, err := gomodel.Build(&m)
			if err != nil {
				continue
			}
			mv := gomodel.SampleValue(mt)
			mv2 := mv
			dyn := gomodel.GoVal{Ptr: &mv2, Dyn: &m}
			asOuter := GoCase{Type: outer, Val: gomodel.GoVal{Elems: []gomodel.GoVal{{I: 1}, dyn}}}
			alone := GoCase{Type: m, Val: mv}
			list := GoCase{Type: gomodel.TypeDesc{Kind: "slice", Elem: &ifc}, Val: gomodel.GoVal{Elems: []gomodel.GoVal{{Ptr: &asOuter.Val, Dyn: &outer}, dyn}}}
			field := GoCase{Type: gomodel.TypeDesc{Kind: "struct", Fields: []gomodel.FieldDesc{{Name: "M", Type: m}, {Name: "L", Type: gomodel.TypeDesc{Kind: "slice", Elem: &m}}}},
				Val: gomodel.GoVal{Elems: []gomodel.GoVal{mv, {Elems: []gomodel.GoVal{mv, mv}}}}}
			for _, h := range [][]GoCase{{asOuter, alone}, {alone, asOuter, alone}, {list, alone}, {asOuter, field}, {field, asOuter, list}} {
				if !emit(&C17Case{Kind: "iterator", Gos: h}) {
					return
				}
			}
		}
	}
}

func init() {
	register(&Property{
		Enum:          enumC17,
		ID:            "C17",
		Rule:          "histories of 2..5 complete documents on ONE instance, per instance kind: 3 encoders (generated event streams incl. extended events, typed containers, options), 3 parsers (Parser.Parse for any value, Parser.Write for self-delimiting container documents; own and foreign documents incl. counted/typed containers), 3 pull decoders (byte slice and reader with generated read schedules, buffer sizes 1..8192, 1 in 4 with everything in one read, the last bytes alone or together with io.EOF; after the last document the decoder must report what a fresh decoder reports on no input), the fold iterator (generated Go types/values incl. pool types) and the unfolder (SetTarget + document via direct/json/ubjson/cborl; 1 in 6 histories walk one type with a user unfolder through different lookups: as target, through pointers, as slice/map element, as struct field; 1 in 3 histories with the key cache enabled at capacity 1, 2, 3 or 8); deterministic part: constructed iterator histories in which a struct with an inlined custom-folder field is first compiled as the dynamic value of another struct's inlined interface and used on its own afterwards (and the reverse, and inside lists/fields); after EVERY step the instance's output for that document is compared with a fresh instance's (encoder bytes; parser/decoder events; iterator value; unfolder target) and all stack-depth hooks must be idle; non-trivial = history >= 2 documents (encoders: of at least two different shapes); distinct by case hash",
		New:           func() any { return &C17Case{} },
		Draw:          drawC17,
		Check:         checkC17,
		AlwaysCurCase: true,
	})
}
