package props

import (
	"errors"
	"fmt"

	"pgregory.net/rapid"

	"verif/harness/gomodel"
	"verif/harness/model"
)

// C12 — folding a Go value emits exactly the value defined by the documented
// tag rules (independent executable model).

func checkC12(ci any, info *CaseInfo) string {
	c := ci.(*GoCase)
	if len(c.Note) > 9 && c.Note[:9] == "scenario:" {
		info.Class("scenario")
		info.NonTrivial = true
		return foldScenario(c.Note[9:])
	}
	typ, rv, err := c.build()
	if err != nil {
		return err.Error()
	}
	typeClasses(typ, info, 0, map[string]bool{})
	exp, merr := gomodel.FoldModel(rv)
	rec := &model.Recorder{}
	var o Outcome
	desc := describeGo(c, rv)
	if c.PreFail > 0 {
		info.Class("after_failed_fold")
		o = foldAfterFailure(rv, rec, c.PreFail-1)
		desc += fmt.Sprintf(" (second fold of one iterator; the visitor failed at event #%d of the first)", c.PreFail-1)
	} else {
		o = foldTo(rv, rec)
	}
	if o.Panicked() {
		return fmt.Sprintf("Fold panics for %s: %v\n%s", desc, o.Panic, o.Stack)
	}
	if merr != nil {
		if !errors.Is(merr, gomodel.ErrRefused) {
			return "harness: model failed: " + merr.Error()
		}
		info.Class("refusal")
		info.NonTrivial = true
		if o.Err == nil {
			return fmt.Sprintf("Fold succeeds for %s, which the documented rules refuse (%v); events: %v", desc, merr, truncEvs(rec.Evs))
		}
		return ""
	}
	info.NonTrivial = typeHasActiveTag(typ, 0)
	if o.Err != nil {
		return fmt.Sprintf("Fold fails for %s: %v (model value: %v)", desc, o.Err, exp)
	}
	got, terr := model.Tree(rec.Evs)
	if terr != nil {
		return fmt.Sprintf("Fold emits a malformed event stream for %s: %v; events: %v", desc, terr, truncEvs(rec.Evs))
	}
	if d := model.Diff(exp, got, model.Rules{AnyNaN: true}); d != "" {
		return fmt.Sprintf("Fold emits another value than the documented mapping for %s: %s\n  model: %v\n  fold:  %v", desc, d, exp, got)
	}
	return ""
}

func init() {
	register(&Property{
		Enum: func(emit func(c any) bool) {
			enumFoldPoolShapes(func(g *GoCase) any { return g })(emit)
			if !enumReentrantMaps(func(g *GoCase) any { return g }, emit) {
				return
			}
			for _, sc := range foldScenarios {
				if !emit(&GoCase{Type: gomodel.TypeDesc{Kind: "int"}, Note: "scenario:" + sc}) {
					return
				}
			}
			// the same shapes folded after a fold of the same iterator that failed at event 1, 2, 3
			for k := 2; k <= 4; k++ {
				k := k
				enumFoldPoolShapes(func(g *GoCase) any { c := *g; c.PreFail = k; return &c })(emit)
			}
		},
		ID:   "C12",
		Rule: "rapid draws a Go type description (all scalar kinds, slices, string maps, pointers depth 0..3, interfaces, nested structs with tags drawn from {none, name, name+omitempty, omitempty, -, omit, inline/squash, padded, illegal combinations}, blanks around tag names and options; pool types incl. Folder/IsZeroer (structs and named int/float/bool/uint8 whose IsZero is not the Go zero test, value and pointer receivers)/registered folders/embedded/named types, unsupported kinds) materialised with reflect.StructOf, and a value of it (nil/empty/non-empty nillables, interfaces holding generic data, structs, pointers, structs that inline an interface again); 1 in 4 values is folded twice by one iterator, the visitor failing at a drawn event of the first fold, and the second fold is judged; deterministic part: every custom-folder pool type in every position (also after a fold that failed at event 1, 2, 3), re-entrant use of one map folder (maps of structs holding maps of the same type through an interface, 3 levels, several keys per level; plain, as field, inlined), two hand-written scenarios (an invalid option must not yield silent success; a type refused by an iterator and a type referring to it), and an omitempty matrix (8 IsZeroer types incl. a named string and a named slice x IsZero true/false x {value, pointer, pointer to pointer, interface holding value / pointer} x 3 tags); oracle = independent executable model of the documented tag rules (gomodel.FoldModel) compared at value level; refusal cases must be errors; non-trivial = the type has at least one tag option or the case is a refusal; distinct by case hash",
		New:  func() any { return &GoCase{} },
		Draw: func(t *rapid.T) any {
			g := drawGoCase(t, gomodel.TypeCfg{Tags: true, Bad: rapid.IntRange(0, 5).Draw(t, "bad") == 5, Pool: true, FoldOnly: true, Arrays: true, Recursive: !genExcludedRecursive()}, gomodel.ValCfg{})
			if rapid.IntRange(0, 3).Draw(t, "prefail") == 0 {
				g.PreFail = 1 + rapid.IntRange(0, 12).Draw(t, "prefailat")
			}
			return g
		},
		Check:         checkC12,
		AlwaysCurCase: true,
	})
}
