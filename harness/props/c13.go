package props

import (
	"fmt"
	"math"
	"math/big"
	"reflect"
	"sort"
	"strings"

	"github.com/elastic/go-structform/gotype"
	"pgregory.net/rapid"

	"verif/harness/gen"
	"verif/harness/gomodel"
	"verif/harness/model"
)

// C13 — unfolding assigns exactly the stream's value; unknown members are skipped.

type C13Case struct {
	Mode    string            `json:"mode"`           // generic | typed
	Type    *gomodel.TypeDesc `json:"type,omitempty"` // typed
	Evs     []model.Ev        `json:"evs"`
	Route   string            `json:"route,omitempty"` // direct | json | ubjson | cborl
	Prefill bool              `json:"prefill,omitempty"`
	Note    string            `json:"note,omitempty"`
	// KeyCache > 0: the unfolder's key cache is enabled with this capacity (the
	// cache must never change a result)
	KeyCache int `json:"key_cache,omitempty"`
	// Pre: the target variable already holds this generated value (slices with
	// spare capacity, maps with entries, allocated pointers). Only what the
	// statement says about such targets is checked: the outcome, and that every
	// slice ends up with exactly the stream's number of elements.
	Pre *gomodel.GoVal `json:"pre,omitempty"`
}

// feedEvents delivers the stream to the unfolder: directly, or encoded with a
// library encoder and parsed back by the library parser (strings then arrive
// by reference from the parser's buffers).
func feedEvents(route string, evs []model.Ev, u *gotype.Unfolder) (Outcome, string) {
	if route == "" || route == "direct" {
		var at int
		o := guard(func() error {
			n, err := model.ApplyScribble(evs, u)
			at = n
			return err
		})
		return o, fmt.Sprintf("event #%d %s", at, evAt(evs, at))
	}
	cd := codecs[route]
	data, eo := encodeStream(cd, EncOpts{}, evs)
	if eo.Panicked() || eo.Err != nil {
		return eo, "encoding the stream with the " + route + " encoder"
	}
	// whole buffer, or (2 of 3 documents, decided by the document itself) through
	// ParseReader over small reads: strings and keys then arrive by reference
	// from a copy buffer that is refilled at the same address
	var o Outcome
	switch chunk := []int{0, 7, 1 + len(data)%29}[len(data)%3]; chunk {
	case 0:
		o = guard(func() error { return cd.Parse(data, u) })
	default:
		var chunks [][]byte
		for i := 0; i < len(data); i += chunk {
			chunks = append(chunks, append([]byte{}, data[i:min(i+chunk, len(data))]...))
		}
		o = guard(func() error { _, err := cd.ParseReader(&chunkReader{chunks: chunks}, u); return err })
	}
	return o, fmt.Sprintf("parsing %q", trunc(data))
}

func checkC13(ci any, info *CaseInfo) string {
	c := ci.(*C13Case)
	info.Class("mode:" + c.Mode)
	info.Class("route:" + c.Route)
	if _, err := model.Tree(c.Evs); err != nil {
		return "harness: stream is not well formed: " + err.Error()
	}
	switch c.Mode {
	case "generic":
		exp, err := gomodel.ExpectGeneric(c.Evs)
		if err != nil {
			return "harness: " + err.Error()
		}
		f := featsOf(c.Evs)
		info.NonTrivial = len(c.Evs) > 1
		for k := range f {
			info.Class(k)
		}
		var target any
		u, err := gotype.NewUnfolder(&target)
		if err != nil {
			return "NewUnfolder(*interface{}) fails: " + err.Error()
		}
		o, where := feedEvents("direct", c.Evs, u)
		if o.Panicked() {
			return fmt.Sprintf("unfolding into interface{} panics at %s: %v\n%s (stream %v)", where, o.Panic, o.Stack, truncEvs(c.Evs))
		}
		if o.Err != nil {
			return fmt.Sprintf("unfolding a well-formed stream into interface{} fails at %s: %v (stream %v)", where, o.Err, truncEvs(c.Evs))
		}
		if d := gomodel.GoEqual(reflect.ValueOf(&exp).Elem(), reflect.ValueOf(&target).Elem(), true); d != "" {
			return fmt.Sprintf("unfolding into interface{} does not yield the stream's value: %s\n  expected %#v\n  got      %#v\n  stream %v", d, exp, target, truncEvs(c.Evs))
		}
		if dd := u.VerifDepths(); dd != [7]int{} {
			return fmt.Sprintf("unfolder stacks not idle after the complete stream: %v (stream %v)", dd, truncEvs(c.Evs))
		}
	case "typed":
		typ, err := gomodel.Build(c.Type)
		if err != nil {
			return err.Error()
		}
		typeClasses(typ, info, 0, map[string]bool{})
		streamV, _ := model.Tree(c.Evs)
		if c.Route != "" && c.Route != "direct" {
			// the parser decides how events arrive; the value is what the codec preserves
		}
		expected := reflect.New(typ)
		target := reflect.New(typ)
		if c.Prefill {
			gomodel.Prefill(expected.Elem())
			gomodel.Prefill(target.Elem())
			info.Class("prefilled")
		}
		if c.Pre != nil {
			if rv, err := gomodel.Materialize(typ, c.Pre); err == nil {
				info.Class("prepopulated_target")
				target.Elem().Set(rv)
				growCaps(target.Elem(), func() reflect.Value { w, _ := gomodel.Materialize(typ, c.Pre); return w })
			}
		}
		merr := gomodel.Assign(expected.Elem(), streamV)
		unknown, conv := countUnknownAndConversions(c.Evs)
		info.NonTrivial = unknown > 0 || conv > 0
		if unknown > 0 {
			info.Class("unknown_members")
		}
		u, err := newUnfolder(target.Interface())
		if err != nil {
			return fmt.Sprintf("NewUnfolder fails for the supported type %s: %v", c.Type, err)
		}
		if c.KeyCache > 0 {
			info.Class("key_cache")
			u.EnableKeyCache(c.KeyCache)
		}
		o, where := feedEvents(c.Route, c.Evs, u)
		desc := fmt.Sprintf("type %s, route %s, stream %v", c.Type, c.Route, truncEvs(c.Evs))
		if len(desc) > 1500 {
			desc = desc[:1500] + "…"
		}
		if o.Panicked() {
			return fmt.Sprintf("unfolding panics at %s: %v\n%s\n  %s", where, o.Panic, o.Stack, desc)
		}
		if merr != nil {
			info.Class("model_mismatch")
			if o.Err == nil {
				return fmt.Sprintf("unfolding succeeds although the shapes do not match (%v)\n  %s", merr, desc)
			}
			return ""
		}
		if o.Err != nil {
			return fmt.Sprintf("unfolding a matching stream fails at %s: %v\n  %s", where, o.Err, desc)
		}
		if c.Pre != nil {
			if m := gomodel.SliceLens(target.Elem(), dedupTree(streamV), "$", 0); m != "" {
				return fmt.Sprintf("unfolding into a variable that already held a value: %s\n  got %+v\n  %s", m, safeInterface(target.Elem()), desc)
			}
			return ""
		}
		if d := gomodel.GoEqualRoute(expected.Elem(), target.Elem(), routeRules(c.Route)); d != "" {
			return fmt.Sprintf("unfolding does not assign exactly the stream's value: %s\n  expected %+v\n  got      %+v\n  %s", d, safeInterface(expected.Elem()), safeInterface(target.Elem()), desc)
		}
		if dd := u.VerifDepths(); dd != [7]int{} {
			return fmt.Sprintf("unfolder stacks not idle after the complete stream: %v\n  %s", dd, desc)
		}
	default:
		return "harness: unknown mode"
	}
	return ""
}

func countUnknownAndConversions(evs []model.Ev) (unknown, conv int) {
	for _, e := range evs {
		if (e.K == model.KKey || e.K == model.KKeyRef) && len(e.S) >= 2 && e.S[0] == '~' && e.S[1] == 'u' {
			unknown++
		}
		switch e.K {
		case model.KI8, model.KI16, model.KI32, model.KU8, model.KU16, model.KU32, model.KByte, model.KF32:
			conv++
		}
	}
	return
}

// ---- rendering a model value as a perturbed event stream ----

type renderer struct {
	t       *rapid.T
	route   string
	unk     int
	perturb bool
	// names: every member name some struct in the value knows (collected on
	// first use): an unknown member is often named like a field of ANOTHER
	// struct of the same target type
	names     []string
	namesDone bool
}

func collectFieldNames(v model.V, into map[string]bool) {
	for _, n := range v.FieldNames {
		if n != "" {
			into[n] = true
		}
	}
	for _, e := range v.A {
		collectFieldNames(e, into)
	}
	for _, m := range v.O {
		collectFieldNames(m.Val, into)
	}
}

// unknownKey draws the name of a member the struct v does not know.
func (r *renderer) unknownKey(v model.V) []byte {
	r.unk++
	if v.FieldNames != nil && len(r.names) > 0 && rapid.Bool().Draw(r.t, "unkforeign") {
		own := map[string]bool{}
		for _, n := range v.FieldNames {
			own[n] = true
		}
		var foreign []string
		for _, n := range r.names {
			if !own[n] {
				foreign = append(foreign, n)
			}
		}
		if len(foreign) > 0 {
			return []byte(rapid.SampledFrom(foreign).Draw(r.t, "unkname"))
		}
	}
	return []byte(fmt.Sprintf("~u%d", r.unk))
}

var intKinds = []struct {
	k        string
	lo, hi   *big.Int
	unsigned bool
}{
	{model.KI8, big.NewInt(math.MinInt8), big.NewInt(math.MaxInt8), false},
	{model.KI16, big.NewInt(math.MinInt16), big.NewInt(math.MaxInt16), false},
	{model.KI32, big.NewInt(math.MinInt32), big.NewInt(math.MaxInt32), false},
	{model.KI64, big.NewInt(math.MinInt64), big.NewInt(math.MaxInt64), false},
	{model.KInt, big.NewInt(math.MinInt64), big.NewInt(math.MaxInt64), false},
	{model.KByte, big.NewInt(0), big.NewInt(math.MaxUint8), true},
	{model.KU8, big.NewInt(0), big.NewInt(math.MaxUint8), true},
	{model.KU16, big.NewInt(0), big.NewInt(math.MaxUint16), true},
	{model.KU32, big.NewInt(0), big.NewInt(math.MaxUint32), true},
	{model.KU64, big.NewInt(0), new(big.Int).SetUint64(math.MaxUint64), true},
	{model.KUint, big.NewInt(0), new(big.Int).SetUint64(math.MaxUint64), true},
}

func intEvent(kind string, n *big.Int) model.Ev {
	for _, ik := range intKinds {
		if ik.k == kind {
			if ik.unsigned {
				return model.Ev{K: kind, U: n.Uint64()}
			}
			return model.Ev{K: kind, I: n.Int64()}
		}
	}
	return model.Ev{K: model.KI64, I: n.Int64()}
}

func (r *renderer) number(v model.V) model.Ev {
	if v.K == model.VInt {
		var fits []string
		for _, ik := range intKinds {
			if v.N.Cmp(ik.lo) >= 0 && v.N.Cmp(ik.hi) <= 0 {
				fits = append(fits, ik.k)
			}
		}
		if r.route == "direct" && r.perturb && v.N.IsInt64() && v.N.Int64() >= -(1<<24) && v.N.Int64() <= 1<<24 && rapid.IntRange(0, 5).Draw(r.t, "numf") == 0 {
			// an integral float holds the number too (direct delivery only: the
			// text formats would spell it as an integer again)
			if rapid.Bool().Draw(r.t, "numf32") {
				return model.Ev{K: model.KF32, F: uint64(math.Float32bits(float32(v.N.Int64())))}
			}
			return model.Ev{K: model.KF64, F: math.Float64bits(float64(v.N.Int64()))}
		}
		return intEvent(rapid.SampledFrom(fits).Draw(r.t, "numk"), v.N)
	}
	f := v.Float()
	opts := []string{"same"}
	if v.F32 {
		opts = append(opts, "f64")
	} else if float64(float32(f)) == f && r.route != "json" {
		// (through JSON a float32 event is spelled with float32 precision, which
		// only promises float32(n) == f — not exact for a float64 target)
		opts = append(opts, "f32")
	}
	if f == math.Trunc(f) && !math.IsInf(f, 0) && math.Abs(f) < 1<<53 && !(f == 0 && math.Signbit(f)) {
		opts = append(opts, "int")
	}
	switch rapid.SampledFrom(opts).Draw(r.t, "fltk") {
	case "f64":
		return model.Ev{K: model.KF64, F: math.Float64bits(f)}
	case "f32":
		return model.Ev{K: model.KF32, F: uint64(math.Float32bits(float32(f)))}
	case "int":
		return r.number(model.Int(int64(f)))
	}
	if v.F32 {
		return model.Ev{K: model.KF32, F: v.Bits}
	}
	return model.Ev{K: model.KF64, F: v.Bits}
}

func (r *renderer) unknownValue(out *[]model.Ev) {
	cfg := gen.StreamCfg{Ext: true, Refs: true, Budget: 12, MaxDepth: 3, ValidUTF8: r.route == "json", Finite: r.route == "json", NoBigUint: r.route == "ubjson"}
	if rapid.IntRange(0, 2).Draw(r.t, "unkdeep") == 0 {
		// deep unknown values: arrays in objects in arrays in arrays ...
		cfg.Budget, cfg.MaxDepth, cfg.Deep = 30, 7, true
	}
	evs, _ := gen.Stream(r.t, cfg)
	*out = append(*out, evs...)
}

func (r *renderer) key(k []byte) model.Ev {
	if rapid.IntRange(0, 2).Draw(r.t, "kref") == 2 {
		return model.Ev{K: model.KKeyRef, S: k}
	}
	return model.Ev{K: model.KKey, S: k}
}

func (r *renderer) render(v model.V, out *[]model.Ev) {
	if !r.namesDone {
		r.namesDone = true
		set := map[string]bool{}
		collectFieldNames(v, set)
		for n := range set {
			r.names = append(r.names, n)
		}
		sort.Strings(r.names)
	}
	switch v.K {
	case model.VNull:
		*out = append(*out, model.Ev{K: model.KNil})
	case model.VBool:
		*out = append(*out, model.Ev{K: model.KBool, B: v.B})
	case model.VInt, model.VFloat:
		*out = append(*out, r.number(v))
	case model.VStr:
		k := model.KStr
		if rapid.IntRange(0, 2).Draw(r.t, "sref") == 2 {
			k = model.KStrRef
		}
		*out = append(*out, model.Ev{K: k, S: v.S})
	case model.VArr:
		n := -1
		if rapid.Bool().Draw(r.t, "aann") {
			n = len(v.A)
		}
		*out = append(*out, model.Ev{K: model.KArrStart, L: n})
		for _, e := range v.A {
			r.render(e, out)
		}
		*out = append(*out, model.Ev{K: model.KArrEnd})
	case model.VObj:
		members := append([]model.Member(nil), v.O...)
		// permute
		if len(members) > 1 && rapid.Bool().Draw(r.t, "perm") {
			members = rapid.Permutation(members).Draw(r.t, "permv")
		}
		count := 0
		var body []model.Ev
		emit := func(m model.Member) {
			body = append(body, r.key(m.Key))
			r.render(m.Val, &body)
			count++
		}
		for _, m := range members {
			if v.Struct && r.perturb {
				// unknown member before this one?
				for rapid.IntRange(0, 5).Draw(r.t, "unk") == 5 {
					body = append(body, r.key(r.unknownKey(v)))
					r.unknownValue(&body)
					count++
				}
				// omit this member?
				if rapid.IntRange(0, 7).Draw(r.t, "omit") == 7 {
					continue
				}
			}
			emit(m)
			// duplicate a scalar-valued member (last wins)
			if v.Struct && r.perturb && m.Val.K != model.VArr && m.Val.K != model.VObj && rapid.IntRange(0, 11).Draw(r.t, "dup") == 11 {
				emit(m)
			}
		}
		if v.Struct && r.perturb && rapid.IntRange(0, 3).Draw(r.t, "unkend") == 3 {
			body = append(body, r.key(r.unknownKey(v)))
			r.unknownValue(&body)
			count++
		}
		n := -1
		if rapid.Bool().Draw(r.t, "oann") {
			n = count
		}
		*out = append(*out, model.Ev{K: model.KObjStart, L: n})
		*out = append(*out, body...)
		*out = append(*out, model.Ev{K: model.KObjEnd})
	}
}

func drawC13(t *rapid.T) any {
	if rapid.IntRange(0, 2).Draw(t, "mode") == 0 {
		evs, _ := gen.Stream(t, gen.StreamCfg{Ext: true, Refs: true, Deep: true})
		return &C13Case{Mode: "generic", Evs: evs, Route: "direct"}
	}
	route := rapid.SampledFrom(routes).Draw(t, "route")
	vcfg := gomodel.ValCfg{ValidUTF8: route == "json", Finite: route == "json", NoBigUint: route == "ubjson", Budget: 40}
	g := drawGoCase(t, gomodel.TypeCfg{Tags: true, Pool: true, InlineOnlyStruct: true, Normalising: true, TopStruct: rapid.Bool().Draw(t, "topstruct")}, vcfg)
	typ, rv, err := g.build()
	if err != nil {
		t.Fatalf("harness: %v", err)
	}
	if gomodel.MayRefuse(typ) != "" {
		// duplicate names etc.: fall back to a plain struct
		g.Type = gomodel.TypeDesc{Kind: "struct", Fields: []gomodel.FieldDesc{{Name: "A", Type: gomodel.TypeDesc{Kind: "int"}}, {Name: "B", Tag: `struct:"b,omitempty"`, Type: gomodel.TypeDesc{Kind: "string"}}}}
		typ, _ = gomodel.Build(&g.Type)
		g.Val = gomodel.DrawValue(t, typ, vcfg)
		rv, _ = gomodel.Materialize(typ, &g.Val)
	}
	v, err := gomodel.FoldModel(rv)
	if err != nil {
		t.Fatalf("harness: fold model refuses a supported type: %v", err)
	}
	r := &renderer{t: t, route: route, perturb: true}
	var evs []model.Ev
	r.render(v, &evs)
	c := &C13Case{Mode: "typed", Type: &g.Type, Evs: evs, Route: route, Prefill: rapid.Bool().Draw(t, "prefill")}
	if rapid.IntRange(0, 4).Draw(t, "pre") == 0 {
		gv := gomodel.DrawValue(t, typ, gomodel.ValCfg{Budget: 25})
		c.Pre = &gv
		c.Prefill = false
	}
	if rapid.IntRange(0, 4).Draw(t, "keycache") == 0 {
		c.KeyCache = rapid.SampledFrom([]int{1, 2, 8}).Draw(t, "keycachecap")
	}
	return c
}

// enumC13: the full numeric conversion matrix — every numeric event kind x
// every numeric target kind x boundary values that fit both, as scalar target,
// struct field, slice element and map value.
func enumC13(emit func(c any) bool) {
	// a recursive type with a processing user unfolder: documents that nest the
	// type inside itself (several processing states of one type active at once)
	{
		node := func(name string, kids ...[]model.Ev) []model.Ev {
			out := []model.Ev{{K: model.KObjStart, L: -1}, {K: model.KKey, S: []byte("name")}, {K: model.KStr, S: []byte(name)}, {K: model.KKeyRef, S: []byte("kids")}, {K: model.KArrStart, L: len(kids)}}
			for _, k := range kids {
				out = append(out, k...)
			}
			return append(out, model.Ev{K: model.KArrEnd}, model.Ev{K: model.KObjEnd})
		}
		ut := gomodel.TypeDesc{Kind: "pool", Pool: "UTree"}
		doc := node("a", node("b", node("c"), node("c2", node("d"))), node("e"))
		for _, td := range []gomodel.TypeDesc{ut, {Kind: "ptr", Elem: &ut}, {Kind: "slice", Elem: &ut}, {Kind: "map", Elem: &ut},
			{Kind: "struct", Fields: []gomodel.FieldDesc{{Name: "T", Type: ut}, {Name: "Z", Type: gomodel.TypeDesc{Kind: "string"}}}}} {
			td := td
			evs := doc
			switch td.Kind {
			case "slice":
				evs = append(append(append([]model.Ev{{K: model.KArrStart, L: 2}}, doc...), node("f", node("g"))...), model.Ev{K: model.KArrEnd})
			case "map":
				evs = append(append([]model.Ev{{K: model.KObjStart, L: 1}, {K: model.KKey, S: []byte("k")}}, doc...), model.Ev{K: model.KObjEnd})
			case "struct":
				evs = append(append([]model.Ev{{K: model.KObjStart, L: -1}, {K: model.KKey, S: []byte("t")}}, doc...), model.Ev{K: model.KKey, S: []byte("z")}, model.Ev{K: model.KStr, S: []byte("after")}, model.Ev{K: model.KObjEnd})
			}
			if !emit(&C13Case{Mode: "typed", Type: &td, Evs: evs, Route: "direct", Prefill: true, Note: "recursive processing unfolder"}) {
				return
			}
		}
	}
	targetKinds := []string{"int", "int8", "int16", "int32", "int64", "uint", "uint8", "uint16", "uint32", "uint64", "float32", "float64"}
	bounds := []*big.Int{}
	for _, s := range []string{"0", "1", "-1", "127", "128", "-128", "-129", "255", "256", "32767", "32768", "-32768", "65535", "65536", "2147483647", "2147483648", "-2147483648", "4294967295", "4294967296", "16777216", "9007199254740992", "9223372036854775807", "-9223372036854775808", "9223372036854775808", "18446744073709551615"} {
		n, _ := new(big.Int).SetString(s, 10)
		bounds = append(bounds, n)
	}
	fitsTarget := func(kind string, n *big.Int) bool {
		switch kind {
		case "float32":
			return new(big.Int).Abs(n).Cmp(big.NewInt(1<<24)) <= 0
		case "float64":
			return new(big.Int).Abs(n).Cmp(big.NewInt(1<<53)) <= 0
		case "int":
			kind = "int64"
		case "uint":
			kind = "uint64"
		}
		for _, ik := range intKinds {
			if ik.k == map[string]string{"int8": model.KI8, "int16": model.KI16, "int32": model.KI32, "int64": model.KI64, "uint8": model.KU8, "uint16": model.KU16, "uint32": model.KU32, "uint64": model.KU64}[kind] {
				return n.Cmp(ik.lo) >= 0 && n.Cmp(ik.hi) <= 0
			}
		}
		return false
	}
	for _, tk := range targetKinds {
		for _, ik := range intKinds {
			for _, n := range bounds {
				if n.Cmp(ik.lo) < 0 || n.Cmp(ik.hi) > 0 || !fitsTarget(tk, n) {
					continue
				}
				ev := intEvent(ik.k, n)
				scalar := gomodel.TypeDesc{Kind: tk}
				user := gomodel.TypeDesc{Kind: "pool", Pool: "UP" + strings.ToUpper(tk[:1]) + tk[1:]}
				shapes := []struct {
					td  gomodel.TypeDesc
					evs []model.Ev
				}{
					{scalar, []model.Ev{ev}},
					{gomodel.TypeDesc{Kind: "struct", Fields: []gomodel.FieldDesc{{Name: "S", Type: gomodel.TypeDesc{Kind: "string"}}, {Name: "F", Type: scalar}}},
						[]model.Ev{{K: model.KObjStart, L: -1}, {K: model.KKey, S: []byte("f")}, ev, {K: model.KObjEnd}}},
					{gomodel.TypeDesc{Kind: "slice", Elem: &scalar}, []model.Ev{{K: model.KArrStart, L: 2}, ev, ev, {K: model.KArrEnd}}},
					{gomodel.TypeDesc{Kind: "map", Elem: &scalar}, []model.Ev{{K: model.KObjStart, L: 1}, {K: model.KKeyRef, S: []byte("k")}, ev, {K: model.KObjEnd}}},
					// the same conversions through the primitive USER unfolder of that kind
					{user, []model.Ev{ev}},
					{gomodel.TypeDesc{Kind: "slice", Elem: &gomodel.TypeDesc{Kind: "ptr", Elem: &user}}, []model.Ev{{K: model.KArrStart, L: -1}, ev, {K: model.KNil}, ev, {K: model.KArrEnd}}},
					{gomodel.TypeDesc{Kind: "struct", Fields: []gomodel.FieldDesc{{Name: "F", Type: user}, {Name: "G", Type: gomodel.TypeDesc{Kind: "map", Elem: &user}}}},
						[]model.Ev{{K: model.KObjStart, L: -1}, {K: model.KKey, S: []byte("g")}, {K: model.KObjStart, L: 1}, {K: model.KKeyRef, S: []byte("k")}, ev, {K: model.KObjEnd}, {K: model.KKey, S: []byte("f")}, ev, {K: model.KObjEnd}}},
				}
				// containers that ANNOUNCE their element type (as folding a typed map or
				// slice, or a typed container of the binary formats does) into targets
				// whose elements are reached through pointers or a user unfolder, and an
				// empty typed container into containers of structs
				bt := uint8(model.BaseTypeOf(ik.k))
				pscalar := gomodel.TypeDesc{Kind: "ptr", Elem: &scalar}
				sA := gomodel.TypeDesc{Kind: "struct", Fields: []gomodel.FieldDesc{{Name: "A", Type: gomodel.TypeDesc{Kind: "int"}}}}
				typedObj := []model.Ev{{K: model.KObjStart, L: 2, T: bt}, {K: model.KKeyRef, S: []byte("k")}, ev, {K: model.KKey, S: []byte("l")}, ev, {K: model.KObjEnd}}
				typedArr := []model.Ev{{K: model.KArrStart, L: 2, T: bt}, ev, ev, {K: model.KArrEnd}}
				shapes = append(shapes, []struct {
					td  gomodel.TypeDesc
					evs []model.Ev
				}{
					{gomodel.TypeDesc{Kind: "map", Elem: &scalar}, typedObj},
					{gomodel.TypeDesc{Kind: "map", Elem: &pscalar}, typedObj},
					{gomodel.TypeDesc{Kind: "map", Elem: &user}, typedObj},
					{gomodel.TypeDesc{Kind: "slice", Elem: &scalar}, typedArr},
					{gomodel.TypeDesc{Kind: "slice", Elem: &pscalar}, typedArr},
					{gomodel.TypeDesc{Kind: "slice", Elem: &user}, typedArr},
					{gomodel.TypeDesc{Kind: "struct", Fields: []gomodel.FieldDesc{{Name: "M", Type: gomodel.TypeDesc{Kind: "map", Elem: &pscalar}}, {Name: "L", Type: gomodel.TypeDesc{Kind: "slice", Elem: &pscalar}}}},
						append(append(append([]model.Ev{{K: model.KObjStart, L: 2}, {K: model.KKey, S: []byte("m")}}, typedObj...), model.Ev{K: model.KKey, S: []byte("l")}), append(typedArr, model.Ev{K: model.KObjEnd})...)},
					{gomodel.TypeDesc{Kind: "map", Elem: &sA}, []model.Ev{{K: model.KObjStart, L: 0, T: bt}, {K: model.KObjEnd}}},
					{gomodel.TypeDesc{Kind: "slice", Elem: &sA}, []model.Ev{{K: model.KArrStart, L: 0, T: bt}, {K: model.KArrEnd}}},
					{gomodel.TypeDesc{Kind: "map", Elem: &gomodel.TypeDesc{Kind: "slice", Elem: &scalar}}, []model.Ev{{K: model.KObjStart, L: 0, T: bt}, {K: model.KObjEnd}}},
				}...)
				for i := range shapes {
					if !emit(&C13Case{Mode: "typed", Type: &shapes[i].td, Evs: shapes[i].evs, Route: "direct", Prefill: true, Note: "conversion matrix"}) {
						return
					}
				}
			}
		}
		// float events into numeric targets (exactly representable values)
		for _, f := range []float64{0, 1, -1, 127, 255, 65535, 16777216} {
			if f < 0 && (tk[0] == 'u') {
				continue
			}
			if !fitsTarget(tk, big.NewInt(int64(f))) {
				continue
			}
			for _, ev := range []model.Ev{{K: model.KF64, F: math.Float64bits(f)}, {K: model.KF32, F: uint64(math.Float32bits(float32(f)))}} {
				td := gomodel.TypeDesc{Kind: tk}
				if !emit(&C13Case{Mode: "typed", Type: &td, Evs: []model.Ev{ev}, Route: "direct", Note: "conversion matrix (float event)"}) {
					return
				}
				ud := gomodel.TypeDesc{Kind: "pool", Pool: "UP" + strings.ToUpper(tk[:1]) + tk[1:]}
				if !emit(&C13Case{Mode: "typed", Type: &ud, Evs: []model.Ev{ev}, Route: "direct", Note: "conversion matrix (float event, user unfolder)"}) {
					return
				}
			}
		}
	}
}

func init() {
	register(&Property{
		ID:            "C13",
		Rule:          "(a) generic: gen.Stream (strings/keys by value or by reference, announced/unknown lengths, element-type hints, extended events) into *interface{}; oracle = independently built generic Go value (typed slices/maps where a BaseType is announced, last duplicate wins), compared with exact Go types. (b) typed: generated supported Go type and value, rendered from the fold model as a PERTURBED stream — every number through any numeric event kind that holds it (all integer widths, float32<->float64, integers for integral floats, integral floats for small integers on direct delivery), strings/keys by value or reference, members permuted, members omitted, scalar members duplicated, unknown members of every shape (scalars, by-reference strings, nested objects with keys, arrays, typed arrays) at drawn positions and depths — delivered directly or through the json/ubjson/cborl encoder+parser into a fresh or sentinel-prefilled target (1 in 5: a target that already holds a generated value — only the outcome and the lengths of all slices are checked then), 1 in 5 with the unfolder's key cache enabled; oracle = reference model of assignment (gomodel.Assign) applied to the tree of the very same stream, every event method must return nil, unfolder stacks idle. Deterministic part: nested documents for a recursive type with a processing user unfolder (as target, pointer, element, map value, field); the full numeric conversion matrix (11 integer event kinds + 2 float kinds x 12 numeric target kinds x boundary values that fit) as scalar target, struct field, slice element and map value, and through the primitive user unfolder of the target kind (as target, []*T element, struct field and map value), and the same values inside maps and slices that announce their element type, into targets whose elements are scalars, pointers to scalars or user-unfolded types, plus empty typed containers into containers of structs. non-trivial = at least one unknown member or one width conversion (generic mode: more than one event); distinct by case hash",
		New:           func() any { return &C13Case{} },
		Draw:          drawC13,
		Check:         checkC13,
		Enum:          enumC13,
		AlwaysCurCase: true,
	})
}

// dedupTree is the identity here: SliceLens itself lets the last duplicate win.
func dedupTree(v model.V) model.V { return v }
