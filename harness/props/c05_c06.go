package props

import (
	"bytes"
	"errors"
	"fmt"

	"pgregory.net/rapid"

	"verif/harness/gen"
	"verif/harness/model"
	"verif/harness/ref"
)

// C05 / C06 — foreign documents of the binary formats are read with the value
// the reference decoder assigns; CBOR items outside the subset are refused.

type DocCase struct {
	Doc  []byte `json:"doc"`
	Note string `json:"note,omitempty"`
	// Prev: inputs (mostly truncated or otherwise invalid) handed to the
	// package-level Parse function BEFORE the document under test: whatever the
	// package keeps between calls (pools, tables) must not matter
	Prev [][]byte `json:"prev,omitempty"`
	// Cuts: the document reaches the parser through ParseReader over a reader
	// that returns exactly these chunks (the value is the same however the
	// bytes arrive)
	Cuts []int `json:"cuts,omitempty"`
}

// drawPrev draws 0..2 earlier inputs: prefixes of the document and of another
// encoding of it, hostile headers.
func drawPrev(t *rapid.T, doc []byte, hostile []string) [][]byte {
	if rapid.IntRange(0, 3).Draw(t, "prev") != 0 || len(doc) == 0 {
		return nil
	}
	var out [][]byte
	for i, n := 0, rapid.IntRange(1, 2).Draw(t, "nprev"); i < n; i++ {
		if len(hostile) > 0 && rapid.IntRange(0, 3).Draw(t, "prevh") == 0 {
			out = append(out, []byte(rapid.SampledFrom(hostile).Draw(t, "prevhv")))
			continue
		}
		out = append(out, append([]byte{}, doc[:rapid.IntRange(0, len(doc)-1).Draw(t, "prevcut")]...))
	}
	return out
}

// drawDocCuts: 1 in 3 documents is delivered in chunks.
func drawDocCuts(t *rapid.T, doc []byte, spans []ref.Span) []int {
	if len(doc) < 2 || rapid.IntRange(0, 2).Draw(t, "chunked") != 0 {
		return nil
	}
	return gen.Cuts(t, len(doc), spans)
}

func parsePrev(cd *codec, prev [][]byte) {
	for _, p := range prev {
		p := p
		guard(func() error { return cd.Parse(p, &model.Counter{Limit: 4*len(p) + 64}) })
	}
}

func parseToTree(cd *codec, doc []byte, cuts ...int) (model.V, []model.Ev, Outcome, error) {
	rec := &model.Recorder{}
	o := guard(func() error {
		if len(cuts) > 0 {
			_, err := cd.ParseReader(&chunkReader{chunks: cloneChunks(gen.Split(doc, cuts))}, rec)
			return err
		}
		return cd.Parse(doc, rec)
	})
	if o.Panicked() || o.Err != nil {
		return model.V{}, rec.Evs, o, nil
	}
	if m := rec.RetainedIntact(); m != "" {
		return model.V{}, rec.Evs, o, errors.New(m)
	}
	v, err := model.Tree(rec.Evs)
	return v, rec.Evs, o, err
}

func checkC05(ci any, info *CaseInfo) string {
	c := ci.(*DocCase)
	exp, n, st, cinfo := ref.DecodeCBOR(c.Doc)
	if st != ref.OK || n != len(c.Doc) {
		return fmt.Sprintf("harness: case document %x is not one well-formed CBOR item (%v, %d/%d bytes)", trunc(c.Doc), st, n, len(c.Doc))
	}
	info.NonTrivial = cinfo.NonMinimal || cinfo.Indefinite || cinfo.BigNeg || cinfo.Depth >= 2 || cinfo.Unsupported != "" || hasNegTopBit(c.Doc)
	if cinfo.NonMinimal {
		info.Class("nonminimal")
	}
	if cinfo.Indefinite {
		info.Class("indefinite")
	}
	if cinfo.Depth >= 2 {
		info.Class("depth>=2")
	}
	if len(c.Prev) > 0 {
		info.Class("earlier_inputs")
		parsePrev(codecs["cborl"], c.Prev)
	}
	if len(c.Cuts) > 0 {
		info.Class("chunked")
	}
	got, _, o, terr := parseToTree(codecs["cborl"], c.Doc, c.Cuts...)
	if o.Panicked() {
		return fmt.Sprintf("cborl parser panicked on %x: %v\n%s", trunc(c.Doc), o.Panic, o.Stack)
	}
	if cinfo.Unsupported != "" {
		info.Class("unsupported:" + cinfo.Unsupported)
		if o.Err == nil {
			return fmt.Sprintf("cborl parser accepted %x although it uses an unsupported feature (%s); reported %v", trunc(c.Doc), cinfo.Unsupported, got)
		}
		return ""
	}
	info.Class("subset")
	if o.Err != nil {
		return fmt.Sprintf("cborl parser rejected the well-formed item %x (value %v) of the supported subset: %v", trunc(c.Doc), exp, o.Err)
	}
	if terr != nil {
		return fmt.Sprintf("cborl parser produced a malformed event stream for %x: %v", trunc(c.Doc), terr)
	}
	if d := model.Diff(exp, got, model.Rules{}); d != "" {
		return fmt.Sprintf("cborl parser reports another value than RFC 7049 assigns to %x: %s", trunc(c.Doc), d)
	}
	return ""
}

func hasNegTopBit(doc []byte) bool {
	// cheap scan: any 0x38 followed by a byte >= 0x80 etc. is only a hint; the
	// precise flag comes from the encoder features at draw time
	for i := 0; i+1 < len(doc); i++ {
		if doc[i] >= 0x38 && doc[i] <= 0x3b && doc[i+1] >= 0x80 {
			return true
		}
	}
	return false
}

var cborUnsupportedItems = [][]byte{
	{0x3b, 0x80, 0, 0, 0, 0, 0, 0, 0}, {0x3b, 0xff, 0xff, 0xff, 0xff, 0xff, 0xff, 0xff, 0xff}, // below -2^63
	{0xc0, 0x60}, {0xc1, 0x01}, {0xd8, 0x20, 0x61, 0x61}, {0xc2, 0x41, 0x01}, {0xd9, 0x01, 0x00, 0x80}, {0xda, 0, 0, 0, 1, 0xf6}, {0xdb, 0, 0, 0, 0, 0, 0, 0, 1, 0x00}, // tags
	{0xf9, 0x00, 0x00}, {0xf9, 0x3c, 0x00}, {0xf9, 0x7e, 0x00}, {0xf9, 0x7c, 0x00}, // half floats
	{0x7f, 0xff}, {0x7f, 0x61, 0x61, 0xff}, {0x5f, 0xff}, {0x5f, 0x41, 0x01, 0x41, 0x02, 0xff}, // indefinite strings
	{0xe0}, {0xf3}, {0xf8, 0x20}, {0xf8, 0xff}, // simple values
}

var cborNonTextKeys = [][]byte{{0x01}, {0x20}, {0x41, 0x61}, {0x80}, {0xa0}, {0xf6}, {0xf5}, {0xfa, 0, 0, 0, 0}, {0x7f, 0x61, 0x61, 0xff}}

// injectCBOR renders v and replaces one scalar leaf (or one key) by raw bytes.
func drawCBORUnsupported(t *rapid.T) ([]byte, string) {
	v := gen.Value(t, gen.ValueCfg{IntRange: "cbor", Floats32: true, Budget: 30})
	e := &ref.CBOREnc{C: gen.RapidChooser{T: t}}
	if countLeaves(v) == 0 {
		v = model.Arr(v, model.Null())
	}
	keyMode := rapid.IntRange(0, 4).Draw(t, "unsup_key") == 4
	if keyMode {
		// wrap: make sure there is an object with a key to replace
		v = model.Obj(model.Member{Key: []byte("k"), Val: v})
		e.InjectKey = map[int][]byte{rapid.IntRange(0, countKeys(v)-1).Draw(t, "unsup_kidx"): rapid.SampledFrom(cborNonTextKeys).Draw(t, "unsup_kraw")}
	} else {
		e.Inject = map[int][]byte{rapid.IntRange(0, countLeaves(v)-1).Draw(t, "unsup_idx"): rapid.SampledFrom(cborUnsupportedItems).Draw(t, "unsup_raw")}
	}
	e.Encode(v)
	return e.Out, "unsupported"
}

func countLeaves(v model.V) int {
	switch v.K {
	case model.VArr:
		n := 0
		for _, x := range v.A {
			n += countLeaves(x)
		}
		if n == 0 {
			return 0
		}
		return n
	case model.VObj:
		n := 0
		for _, m := range v.O {
			n += countLeaves(m.Val)
		}
		return n
	}
	return 1
}

func countKeys(v model.V) int {
	switch v.K {
	case model.VArr:
		n := 0
		for _, x := range v.A {
			n += countKeys(x)
		}
		return n
	case model.VObj:
		n := len(v.O)
		for _, m := range v.O {
			n += countKeys(m.Val)
		}
		return n
	}
	return 0
}

func checkC06(ci any, info *CaseInfo) string {
	c := ci.(*DocCase)
	exp, n, st, uinfo := ref.DecodeUBJSON(c.Doc)
	// trailing top-level no-ops ("keep-alive" bytes after the value) carry no value
	for st == ref.OK && n < len(c.Doc) && c.Doc[n] == 'N' {
		n++
		uinfo.Noop = true
		info.Class("trailing_noop")
	}
	if st != ref.OK || n != len(c.Doc) {
		return fmt.Sprintf("harness: case document %q is not one valid UBJSON value (%v, %d/%d bytes)", trunc(c.Doc), st, n, len(c.Doc))
	}
	if uinfo.Ambiguous {
		return fmt.Sprintf("harness: case document %q uses a construct draft 12 leaves open", trunc(c.Doc))
	}
	info.NonTrivial = uinfo.Counted || uinfo.Typed || uinfo.NonMinimalL || uinfo.Noop || uinfo.Depth >= 2
	for name, on := range map[string]bool{"counted": uinfo.Counted, "typed": uinfo.Typed, "typed_nested": uinfo.TypedNested, "noop": uinfo.Noop, "nonminimal_len": uinfo.NonMinimalL, "depth>=2": uinfo.Depth >= 2, "zero_sized_typed": uinfo.ZeroSized > 0} {
		if on {
			info.Class(name)
		}
	}
	if len(c.Prev) > 0 {
		info.Class("earlier_inputs")
		parsePrev(codecs["ubjson"], c.Prev)
	}
	if len(c.Cuts) > 0 {
		info.Class("chunked")
	}
	got, _, o, terr := parseToTree(codecs["ubjson"], c.Doc, c.Cuts...)
	if o.Panicked() {
		return fmt.Sprintf("ubjson parser panicked on %q: %v\n%s", trunc(c.Doc), o.Panic, o.Stack)
	}
	if o.Err != nil {
		return fmt.Sprintf("ubjson parser rejected the valid value %q (%x) = %v: %v", trunc(c.Doc), trunc(c.Doc), exp, o.Err)
	}
	if terr != nil {
		return fmt.Sprintf("ubjson parser produced a malformed event stream for %q: %v", trunc(c.Doc), terr)
	}
	if d := model.Diff(exp, got, model.Rules{}); d != "" {
		return fmt.Sprintf("ubjson parser reports another value than draft 12 assigns to %q (%x): %s", trunc(c.Doc), trunc(c.Doc), d)
	}
	return ""
}

func newUBJEnc(t *rapid.T) *ref.UBJEnc {
	return &ref.UBJEnc{
		C:                gen.RapidChooser{T: t},
		NoTypedNested:    gen.Excluded("ubjson.typed_nested"),
		NoZeroSizedTyped: gen.Excluded("ubjson.zero_sized_typed"),
		NoTyped:          gen.Excluded("ubjson.typed"),
		NoCounted:        gen.Excluded("ubjson.counted"),
		NoNoop:           gen.Excluded("ubjson.noop"),
	}
}

func init() {
	register(&Property{
		ID:   "C05",
		Rule: "rapid draws a value tree (ints over [-2^64,2^64-1], float32/64 bit patterns, arbitrary byte strings/keys, nested arrays/maps) and renders it with the harness' constructive CBOR encoder under drawn choices (argument width minimal or wider, definite/indefinite containers, byte string vs array, null/undefined); 1 in 5 cases splices exactly one unsupported item (negative below -2^63, tag, half float, indefinite string, simple value, non-text key) at a drawn position; deterministic part: 21 boundary values x every argument width that holds them x {unsigned, negative}, string/array/map lengths in every width, every unsupported item, each in 6 nesting contexts (top, definite/indefinite array and map, indefinite inside definite); EVERY tag number of the direct, 1-byte and 2-byte widths, 48 registered/boundary tag numbers (incl. 55799) in all five widths x 6 payloads x 6 contexts, every half-float bit pattern, every simple value; 1 in 4 documents is parsed after 1..2 earlier calls of the package-level Parse on truncated prefixes / hostile headers; 1 in 3 documents arrives through ParseReader in generated chunks; oracle = independent RFC 7049 decoder; non-trivial = non-minimal width, indefinite container, negative with top argument bit, depth>=2 or unsupported item; distinct by document hash",
		New:  func() any { return &DocCase{} },
		Draw: func(t *rapid.T) any {
			if rapid.IntRange(0, 4).Draw(t, "unsup") == 4 {
				doc, note := drawCBORUnsupported(t)
				return &DocCase{Doc: doc, Note: note}
			}
			v := gen.Value(t, gen.ValueCfg{IntRange: "cbor", Floats32: true, Deep: true, NoEmptyKey: gen.Excluded("empty_key")})
			e := &ref.CBOREnc{C: gen.RapidChooser{T: t}}
			e.Encode(v)
			return &DocCase{Doc: e.Out, Prev: drawPrev(t, e.Out, c03Hostile["cborl"]), Cuts: drawDocCuts(t, e.Out, e.Spans)}
		},
		Check: checkC05,
		Enum:  enumC05,
	})
	register(&Property{
		ID:   "C06",
		Rule: "rapid draws a value tree (int64, float32/64 bits, strings incl. decimal spellings, homogeneous and mixed containers) and renders it with the harness' constructive UBJSON encoder under drawn choices (every integer marker that holds the value, C, H, any length marker i/U/I/l/L, plain/counted/typed containers incl. typed containers of containers, no-ops at top level (before and after the value) and in plain arrays); deterministic part: field names and strings whose one-byte length equals a marker byte (20 markers x {i,U} x 3 name fillings incl. bytes that read as small lengths x counted/typed/plain objects and counted arrays) cut at each of the first 9 positions; 8 fixed documents framed by leading/trailing no-ops, whole and cut at every position; 1 in 4 documents is parsed after 1..2 earlier calls of the package-level Parse on truncated prefixes / hostile headers; 1 in 3 documents arrives through ParseReader in generated chunks; oracle = independent draft-12 decoder; non-trivial = counted/typed container, non-minimal length marker, no-op or depth>=2; distinct by document hash",
		New:  func() any { return &DocCase{} },
		Draw: func(t *rapid.T) any {
			v := gen.Value(t, gen.ValueCfg{IntRange: "int64", Floats32: true, Decimals: true, Deep: true})
			e := newUBJEnc(t)
			e.Encode(v)
			if tail := rapid.IntRange(0, 7).Draw(t, "tailnoop"); tail >= 6 && !gen.Excluded("ubjson.noop") {
				e.Out = append(e.Out, "NN"[:tail-5]...)
			}
			return &DocCase{Doc: e.Out, Prev: drawPrev(t, e.Out, c03Hostile["ubjson"]), Cuts: drawDocCuts(t, e.Out, e.Spans)}
		},
		Check: checkC06,
		Enum: func(emit func(c any) bool) {
			// field names (counted and typed objects) and strings whose one-byte length
			// equals a marker byte, cut at every position of the header: a length byte
			// must never be looked at as anything but a length
			for _, l := range []byte("NZTFiUIlLdDCSH[]{}#$") {
				for _, nb := range []byte{'k', '0', 1} {
					name := bytes.Repeat([]byte{nb}, int(l))
					for _, lm := range []byte{'i', 'U'} {
						docs := [][]byte{
							append(append([]byte{'{', '#', 'i', 1, lm, l}, name...), 'T'),
							append(append([]byte{'{', '$', 'i', '#', 'i', 1, lm, l}, name...), 5),
							append(append([]byte{'{', lm, l}, name...), 'i', 5, '}'),
							append([]byte{'[', '#', 'i', 1, 'S', lm, l}, name...),
						}
						for _, doc := range docs {
							for cut := 1; cut <= 9 && cut < len(doc); cut++ {
								if !emit(&DocCase{Doc: doc, Cuts: []int{cut}}) {
									return
								}
							}
						}
					}
				}
			}
			// fixed documents framed by top-level no-ops, whole and cut at every position
			for _, set := range c18EnumDocs["ubjson"] {
				for _, d := range set {
					for _, doc := range []string{d, "N" + d, d + "N", "NN" + d + "NN"} {
						for cut := 0; cut < len(doc); cut++ {
							c := &DocCase{Doc: []byte(doc)}
							if cut > 0 {
								c.Cuts = []int{cut}
							}
							if !emit(c) {
								return
							}
						}
					}
				}
			}
		},
	})
}
