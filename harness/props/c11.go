package props

import (
	"bytes"
	"errors"
	"fmt"
	"reflect"

	structform "github.com/elastic/go-structform"
	"github.com/elastic/go-structform/gotype"
	"pgregory.net/rapid"

	"verif/harness/gomodel"
	"verif/harness/model"
)

// C11 — Fold then Unfold reproduces any supported Go value, directly or via a
// codec; unsupported types are refused with an error.

var routes = []string{"direct", "json", "ubjson", "cborl"}

// roundTrip folds rv and unfolds the events into a fresh variable of the same
// type. stage names where an error came from.
func roundTrip(route string, typ reflect.Type, rv reflect.Value) (target reflect.Value, stage string, o Outcome) {
	target = reflect.New(typ)
	var u *gotype.Unfolder
	o = guard(func() error {
		var err error
		u, err = newUnfolder(target.Interface())
		return err
	})
	if o.Panicked() || o.Err != nil {
		return target, "NewUnfolder", o
	}
	stage, o = roundTripInto(u, route, rv)
	return target, stage, o
}

// roundTripInto folds rv into the (prepared) unfolder u, directly or through a codec.
func roundTripInto(u *gotype.Unfolder, route string, rv reflect.Value) (stage string, o Outcome) {
	if route == "direct" {
		return "Fold", foldTo(rv, u)
	}
	cd := codecs[route]
	var buf bytes.Buffer
	o = foldTo(rv, cd.NewVisitor(&buf, EncOpts{}))
	if o.Panicked() || o.Err != nil {
		return "Fold", o
	}
	data := buf.Bytes()
	o = guard(func() error { return cd.Parse(data, u) })
	return "Parse(" + fmt.Sprintf("%q", trunc(data)) + ")", o
}

func routeRules(route string) model.Rules {
	switch route {
	case "json":
		return model.Rules{JSONFloat: true, AnyNaN: true}
	}
	return model.Rules{AnyNaN: true}
}

func checkC11(ci any, info *CaseInfo) string {
	c := ci.(*GoCase)
	typ, rv, err := c.build()
	if err != nil {
		return err.Error()
	}
	typeClasses(typ, info, 0, map[string]bool{})
	info.Class("route:" + c.Route)
	desc := describeGo(c, rv) + " via " + c.Route
	refuse := gomodel.MayRefuse(typ)
	exp, merr := gomodel.FoldModel(rv)
	if merr != nil && !errors.Is(merr, gomodel.ErrRefused) {
		return "harness: model failed: " + merr.Error()
	}
	if merr != nil && refuse == "" {
		refuse = merr.Error()
	}
	info.NonTrivial = typeHasActiveTag(typ, 0) || c.Route != "direct" || refuse != ""

	target, stage, o := roundTrip(c.Route, typ, rv)
	if o.Panicked() {
		return fmt.Sprintf("%s panics for %s: %v\n%s", stage, desc, o.Panic, o.Stack)
	}
	if refuse != "" {
		info.Class("refusal_candidate")
		if o.Err != nil {
			info.Class("refused:" + stage[:min(len(stage), 11)])
			return ""
		}
		if merr != nil {
			return fmt.Sprintf("round trip of %s succeeds although the documented rules refuse the type (%v)", desc, merr)
		}
		// accepted: then the result must be right (falls through)
		info.Class("refusal_candidate_accepted")
	} else if o.Err != nil {
		return fmt.Sprintf("%s fails for the supported %s: %v", stage, desc, o.Err)
	}
	recon := target.Elem()
	got, gerr := gomodel.FoldModel(recon)
	if gerr != nil {
		return fmt.Sprintf("harness: model failed on the reconstructed value: %v", gerr)
	}
	if d := model.Diff(exp, got, routeRules(c.Route)); d != "" {
		return fmt.Sprintf("round trip of %s does not reproduce the value: %s\n  original:      %v\n  reconstructed: %v (%+v)", desc, d, exp, got, safeInterface(recon))
	}
	if p := gomodel.DroppedNotZero(recon); p != "" {
		return fmt.Sprintf("round trip of %s wrote to %s, a field that is never transmitted: %+v", desc, p, safeInterface(recon))
	}
	return ""
}

func drawC11(t *rapid.T) any {
	route := rapid.SampledFrom(routes).Draw(t, "route")
	vcfg := gomodel.ValCfg{ValidUTF8: route == "json", Finite: route == "json", NoBigUint: route == "ubjson"}
	tcfg := gomodel.TypeCfg{Tags: true, Pool: true, InlineOnlyStruct: true, Recursive: !genExcludedRecursive()}
	if rapid.IntRange(0, 6).Draw(t, "refusal") == 6 {
		tcfg = gomodel.TypeCfg{Tags: true, Pool: true, Bad: true, Arrays: true, Recursive: !genExcludedRecursive()}
	}
	c := drawGoCase(t, tcfg, vcfg)
	c.Route = route
	return c
}

var _ structform.Visitor = (*model.Recorder)(nil)

func init() {
	register(&Property{
		ID:            "C11",
		Rule:          "rapid draws (type description, value) as in C12 restricted to what Unfold documents (inline only on direct structs, no custom folders), 1 in 7 cases with refusal candidates (arrays, unsupported kinds, map[int]T, inline on non-structs, illegal tag combinations, duplicate names) x route {direct, json, ubjson, cborl} (JSON route: finite floats and valid UTF-8; UBJSON route: unsigned <= MaxInt64); oracle = FoldModel(original) == FoldModel(reconstructed) under the route's representation rules (nil == empty, omitted-when-empty left zero, interface positions compared as values), never-transmitted fields stay zero, refusal candidates end in an error or in a correct round trip, never a panic; non-trivial = tag options present, route != direct, or refusal candidate; distinct by case hash",
		New:           func() any { return &GoCase{} },
		Draw:          drawC11,
		Check:         checkC11,
		AlwaysCurCase: true,
	})
}
