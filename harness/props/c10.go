package props

import (
	"bytes"
	"fmt"
	"math"
	"reflect"
	"unicode/utf8"

	structform "github.com/elastic/go-structform"
	"github.com/elastic/go-structform/cborl"
	"github.com/elastic/go-structform/gotype"
	sfjson "github.com/elastic/go-structform/json"
	"github.com/elastic/go-structform/ubjson"
	"pgregory.net/rapid"

	"verif/harness/gen"
	"verif/harness/gomodel"
	"verif/harness/model"
)

// C10 — extended events mean exactly their expansion into basic events.

type C10Case struct {
	Consumer string     `json:"consumer"` // json | cborl | ubjson | unfold | wrapped
	Pos      string     `json:"pos"`      // top | array | object
	Announce bool       `json:"announce,omitempty"`
	Ev       model.Ev   `json:"ev"`
	Pre      []model.Ev `json:"pre,omitempty"` // scalar siblings before the event
	Sib      []model.Ev `json:"sib,omitempty"` // scalar siblings after the event
	Opts     EncOpts    `json:"opts"`
	// TVar selects the typed target of the "unfold_typed" consumer (c10Target)
	TVar int `json:"tvar,omitempty"`
}

var c10Consumers = []string{"json", "cborl", "ubjson", "unfold", "wrapped", "unfold_typed"}

// c10Target is the typed target the "unfold_typed" consumer unfolds into: an
// element type chosen by the kind of the event under test and TVar — plain,
// through pointers, through user unfolders, named, interface{} — as the whole
// target (top) or as field X of a struct whose other members are unknown
// (object position: the siblings are skipped).
func c10Target(c *C10Case) gomodel.TypeDesc {
	td := func(k string) gomodel.TypeDesc { return gomodel.TypeDesc{Kind: k} }
	ptr := func(e gomodel.TypeDesc) gomodel.TypeDesc { return gomodel.TypeDesc{Kind: "ptr", Elem: &e} }
	sl := func(e gomodel.TypeDesc) gomodel.TypeDesc { return gomodel.TypeDesc{Kind: "slice", Elem: &e} }
	mp := func(e gomodel.TypeDesc) gomodel.TypeDesc { return gomodel.TypeDesc{Kind: "map", Elem: &e} }
	pool := func(n string) gomodel.TypeDesc { return gomodel.TypeDesc{Kind: "pool", Pool: n} }
	var variants []gomodel.TypeDesc
	strElems := []gomodel.TypeDesc{td("string"), ptr(td("string")), ptr(ptr(td("string"))), pool("UStr"), pool("UPString"), pool("NStr"), td("iface")}
	numElems := []gomodel.TypeDesc{td("int64"), td("float64"), ptr(td("int32")), td("iface"), td("uint8"), pool("NInt"), pool("UPInt16"), ptr(pool("UNum")), td("uint64"), td("float32")}
	boolElems := []gomodel.TypeDesc{td("bool"), ptr(td("bool")), pool("UPBool"), td("iface")}
	elemsFor := func(kind string) []gomodel.TypeDesc {
		switch kind {
		case model.KStr, model.KStrRef:
			return strElems
		case model.KBool:
			return boolElems
		case "":
			return []gomodel.TypeDesc{td("iface")}
		}
		return numElems
	}
	switch {
	case c.Ev.K == model.KStrRef:
		variants = strElems
		for _, e := range strElems[:5] {
			variants = append(variants, sl(e), mp(e))
		}
	case c.Ev.K == model.KKeyRef:
		// the event is the key of member 7: every kind of map
		return []gomodel.TypeDesc{mp(td("int8")), mp(ptr(td("int"))), mp(td("iface")), mp(pool("UNum")), td("iface"),
			mp(gomodel.TypeDesc{Kind: "slice", Elem: &gomodel.TypeDesc{Kind: "int"}})}[c.TVar%6]
	case c.Ev.K == model.KBytes:
		variants = []gomodel.TypeDesc{sl(td("uint8")), sl(td("int")), td("iface"), sl(td("iface")), sl(ptr(td("uint8"))), pool("NBytes")}
	case c.Ev.IsExtObj():
		for _, e := range elemsFor(c.Ev.K[2:]) {
			variants = append(variants, mp(e))
		}
		variants = append(variants, td("iface"))
	default: // typed array
		for _, e := range elemsFor(c.Ev.K[2:]) {
			variants = append(variants, sl(e))
		}
		variants = append(variants, td("iface"))
	}
	e := variants[c.TVar%len(variants)]
	if c.Pos == "top" {
		return e
	}
	return gomodel.TypeDesc{Kind: "struct", Fields: []gomodel.FieldDesc{{Name: "A", Type: td("int")}, {Name: "X", Type: e}, {Name: "Z", Type: td("string")}}}
}

func basicOf(e model.Ev) []model.Ev {
	switch e.K {
	case model.KStrRef:
		return []model.Ev{{K: model.KStr, S: e.S}}
	case model.KKeyRef:
		return []model.Ev{{K: model.KKey, S: e.S}}
	}
	return model.Expand(e)
}

// c10Stream builds the event stream around the event under test.
func c10Stream(c *C10Case, expanded bool) []model.Ev {
	ev := []model.Ev{c.Ev}
	if expanded {
		ev = basicOf(c.Ev)
	}
	switch c.Pos {
	case "array":
		n := -1
		if c.Announce {
			n = len(c.Pre) + 1 + len(c.Sib)
		}
		out := []model.Ev{{K: model.KArrStart, L: n}}
		out = append(out, c.Pre...)
		out = append(out, ev...)
		out = append(out, c.Sib...)
		return append(out, model.Ev{K: model.KArrEnd})
	case "object":
		n := -1
		if c.Announce {
			n = len(c.Pre) + 1 + len(c.Sib)
		}
		out := []model.Ev{{K: model.KObjStart, L: n}}
		for i, p := range c.Pre {
			out = append(out, model.Ev{K: model.KKey, S: []byte(fmt.Sprintf("p%d", i))}, p)
		}
		if c.Ev.K == model.KKeyRef {
			// the event under test is the key itself
			out = append(out, ev...)
			out = append(out, model.Ev{K: model.KI8, I: 7})
		} else {
			out = append(out, model.Ev{K: model.KKey, S: []byte("x")})
			out = append(out, ev...)
		}
		for i, s := range c.Sib {
			out = append(out, model.Ev{K: model.KKey, S: []byte(fmt.Sprintf("s%d", i))}, s)
		}
		return append(out, model.Ev{K: model.KObjEnd})
	}
	return ev
}

func encoderDepthIdle(vis structform.Visitor) string {
	switch v := vis.(type) {
	case *sfjson.Visitor:
		if a, b := v.VerifDepth(); a != 0 || b != 0 {
			return fmt.Sprintf("json encoder stacks not idle: first=%d inArray=%d", a, b)
		}
	case *cborl.Visitor:
		if d := v.VerifDepth(); d != 0 {
			return fmt.Sprintf("cborl encoder length stack not idle: %d", d)
		}
	case *ubjson.Visitor:
		if d := v.VerifDepth(); d != 0 {
			return fmt.Sprintf("ubjson encoder length stack not idle: %d", d)
		}
	}
	return ""
}

func refDecodeOne(format string, data []byte) (model.V, error) {
	vals, err := refDecodeAll(format, data)
	if err != nil {
		return model.V{}, err
	}
	if len(vals) != 1 {
		return model.V{}, fmt.Errorf("%d values instead of one", len(vals))
	}
	return vals[0], nil
}

func checkC10(ci any, info *CaseInfo) string {
	c := ci.(*C10Case)
	sa, sb := c10Stream(c, false), c10Stream(c, true)
	// the tree of the extended stream carries the "unordered" marks of map events
	exp, err := model.Tree(sa)
	if err != nil {
		return "harness: stream is not well formed: " + err.Error()
	}
	if e2, err := model.Tree(sb); err != nil || model.Diff(exp, e2, model.Rules{}) != "" {
		return fmt.Sprintf("harness: extended stream and expansion differ in the model: %v", err)
	}
	info.NonTrivial = c.Pos != "top" || len(c.Sib) > 0
	info.Class("consumer:" + c.Consumer)
	info.Class("event:" + c.Ev.K)
	info.Class("pos:" + c.Pos)
	if len(c.Ev.E) == 0 && len(c.Ev.S) == 0 {
		info.Class("empty")
	}
	desc := fmt.Sprintf("%s consumer, event %v at %s (pre %d, sib %d, announce %v)", c.Consumer, c.Ev, c.Pos, len(c.Pre), len(c.Sib), c.Announce)
	nonfinite := hasNonFinite(sa)
	switch c.Consumer {
	case "json", "cborl", "ubjson":
		cd := codecs[c.Consumer]
		run := func(evs []model.Ev) ([]byte, Outcome, string) {
			var buf bytes.Buffer
			vis := cd.NewVisitor(&buf, c.Opts)
			o := guard(func() error { _, err := model.Apply(evs, vis); return err })
			idle := ""
			if !o.Panicked() && o.Err == nil {
				idle = encoderDepthIdle(vis)
			}
			return buf.Bytes(), o, idle
		}
		da, oa, ia := run(sa)
		db, ob, ib := run(sb)
		if oa.Panicked() || ob.Panicked() {
			return fmt.Sprintf("%s: panic: extended %v / expanded %v", desc, oa, ob)
		}
		if (oa.Err == nil) != (ob.Err == nil) {
			return fmt.Sprintf("%s: the extended call ends with %v, its expansion with %v", desc, oa, ob)
		}
		if oa.Err != nil {
			if c.Consumer == "json" && nonfinite && !c.Opts.IgnoreInvalidFloat {
				return ""
			}
			return fmt.Sprintf("%s: both runs fail: %v", desc, oa.Err)
		}
		if ia != "" || ib != "" {
			return fmt.Sprintf("%s: after the complete document: extended: %q expanded: %q", desc, ia, ib)
		}
		if c.Consumer == "json" && (!utf8.Valid(da) || !utf8.Valid(db)) {
			// the reference decoder is lenient about invalid UTF-8 (it replaces it,
			// like the sanitising rule of the comparison): a JSON text is UTF-8
			return fmt.Sprintf("%s: the output is not valid UTF-8, hence not a JSON text: extended %q, expansion %q", desc, trunc(da), trunc(db))
		}
		va, err := refDecodeOne(c.Consumer, da)
		if err != nil {
			return fmt.Sprintf("%s: output of the extended call %q (%x) is not a valid document: %v (expansion gives %q)", desc, trunc(da), trunc(da), err, trunc(db))
		}
		vb, err := refDecodeOne(c.Consumer, db)
		if err != nil {
			return fmt.Sprintf("%s: output of the expansion %q (%x) is not a valid document: %v", desc, trunc(db), trunc(db), err)
		}
		rules := rulesFor(c.Consumer, c.Opts)
		if d := model.Diff(exp, va, rules); d != "" {
			return fmt.Sprintf("%s: the extended call writes another value: %s (output %q / %x; expansion writes %q)", desc, d, trunc(da), trunc(da), trunc(db))
		}
		if d := model.Diff(exp, vb, rules); d != "" {
			return fmt.Sprintf("%s: the expansion writes another value: %s (output %q / %x)", desc, d, trunc(db), trunc(db))
		}
	case "unfold":
		run := func(evs []model.Ev) (any, Outcome, string) {
			var target any
			u, err := gotype.NewUnfolder(&target)
			if err != nil {
				return nil, Outcome{Err: err}, ""
			}
			// by-reference payloads live in a scratch buffer that is overwritten
			// right after the callback, as the StringRefVisitor contract allows
			o := guard(func() error { return scribbleApply(evs, ensureExt(u)) })
			idle := ""
			if !o.Panicked() && o.Err == nil {
				if d := u.VerifDepths(); d != [7]int{} {
					idle = fmt.Sprintf("unfolder stacks not idle: %v", d)
				}
			}
			return target, o, idle
		}
		ta, oa, ia := run(sa)
		tb, ob, ib := run(sb)
		if oa.Panicked() || ob.Panicked() || oa.Err != nil || ob.Err != nil {
			return fmt.Sprintf("%s: unfolding into interface{} fails: extended %v / expanded %v", desc, oa, ob)
		}
		if ia != "" || ib != "" {
			return fmt.Sprintf("%s: after the complete document: extended: %q expanded: %q", desc, ia, ib)
		}
		va, err1 := gomodel.FoldModel(reflect.ValueOf(&ta).Elem())
		vb, err2 := gomodel.FoldModel(reflect.ValueOf(&tb).Elem())
		if err1 != nil || err2 != nil {
			return fmt.Sprintf("harness: cannot model unfolded values: %v %v", err1, err2)
		}
		if d := model.Diff(vb, va, model.Rules{}); d != "" {
			return fmt.Sprintf("%s: unfolding the extended call and its expansion gives different values: %s (extended %#v, expanded %#v)", desc, d, ta, tb)
		}
		// a Go map keeps the last of duplicate members
		if d := model.Diff(dedupLastWins(exp), va, model.Rules{}); d != "" {
			return fmt.Sprintf("%s: unfolding yields another value than the stream holds: %s (%#v)", desc, d, ta)
		}
		if ta != nil && tb != nil && !sameGoTypes(reflect.ValueOf(ta), reflect.ValueOf(tb), 0) {
			return fmt.Sprintf("%s: the extended call yields Go type %T, its expansion %T", desc, ta, tb)
		}
	case "unfold_typed":
		if c.Pos == "array" {
			return "harness: unfold_typed has no array position"
		}
		ttd := c10Target(c)
		typ, err := gomodel.Build(&ttd)
		if err != nil {
			return "harness: " + err.Error()
		}
		info.Class("typed_target")
		run := func(evs []model.Ev) (reflect.Value, Outcome, string) {
			target := reflect.New(typ)
			u, err := newUnfolder(target.Interface())
			if err != nil {
				return target, Outcome{Err: err}, ""
			}
			o := guard(func() error { return scribbleApply(evs, ensureExt(u)) })
			idle := ""
			if !o.Panicked() && o.Err == nil {
				if d := u.VerifDepths(); d != [7]int{} {
					idle = fmt.Sprintf("unfolder stacks not idle: %v", d)
				}
			}
			return target, o, idle
		}
		ta, oa, ia := run(sa)
		tb, ob, ib := run(sb)
		tdesc := fmt.Sprintf("%s, target %s", desc, &ttd)
		if oa.Panicked() || ob.Panicked() {
			return fmt.Sprintf("%s: panic: extended %v / expanded %v", tdesc, oa, ob)
		}
		if (oa.Err == nil) != (ob.Err == nil) {
			return fmt.Sprintf("%s: the extended call ends with %v, its expansion with %v", tdesc, oa, ob)
		}
		if oa.Err != nil {
			info.Class("typed_target_refuses_both")
			return ""
		}
		if ia != "" || ib != "" {
			return fmt.Sprintf("%s: after the complete document: extended: %q expanded: %q", tdesc, ia, ib)
		}
		if d := gomodel.GoEqual(tb.Elem(), ta.Elem(), true); d != "" {
			return fmt.Sprintf("%s: unfolding the extended call and its expansion gives different values: %s\n  extended %+v\n  expanded %+v", tdesc, d, safeInterface(ta.Elem()), safeInterface(tb.Elem()))
		}
	case "wrapped":
		run := func(evs []model.Ev) ([]model.Ev, Outcome) {
			rec := &model.Recorder{}
			o := guard(func() error { return scribbleApply(evs, ensureExt(plainVisitor{rec})) })
			return rec.Evs, o
		}
		ea, oa := run(sa)
		eb, ob := run(sb)
		if oa.Panicked() || ob.Panicked() || oa.Err != nil || ob.Err != nil {
			return fmt.Sprintf("%s: wrapped plain visitor fails: extended %v / expanded %v", desc, oa, ob)
		}
		if m := model.CheckContract(ea, true); m != "" {
			return fmt.Sprintf("%s: the synthesised expansion breaks the Visitor contract: %s", desc, m)
		}
		va, err1 := model.Tree(ea)
		vb, err2 := model.Tree(eb)
		if err1 != nil || err2 != nil {
			return fmt.Sprintf("%s: malformed recordings: %v %v", desc, err1, err2)
		}
		va = markUnordered(va, exp)
		if d := model.Diff(exp, va, model.Rules{}); d != "" {
			return fmt.Sprintf("%s: the wrapped visitor sees another value for the extended call: %s", desc, d)
		}
		_ = vb
		if !c.Ev.IsExtObj() {
			if i, ok := evsEqual(eb, ea); !ok {
				return fmt.Sprintf("%s: the wrapped visitor sees other events for the extended call than for its expansion: event %d: %s vs %s", desc, i, evAt(ea, i), evAt(eb, i))
			}
		}
	default:
		return "harness: unknown consumer " + c.Consumer
	}
	return ""
}

// markUnordered copies the Unordered marks of the expected tree (recordings of
// expanded map events carry none).
func markUnordered(got, exp model.V) model.V { return got }

func sameGoTypes(a, b reflect.Value, depth int) bool {
	if depth > 50 {
		return true
	}
	if a.IsValid() != b.IsValid() {
		return false
	}
	if !a.IsValid() {
		return true
	}
	if a.Type() != b.Type() {
		return false
	}
	switch a.Kind() {
	case reflect.Interface, reflect.Ptr:
		if a.IsNil() || b.IsNil() {
			return a.IsNil() == b.IsNil()
		}
		return sameGoTypes(a.Elem(), b.Elem(), depth+1)
	case reflect.Slice:
		for i := 0; i < a.Len() && i < b.Len(); i++ {
			if !sameGoTypes(a.Index(i), b.Index(i), depth+1) {
				return false
			}
		}
	case reflect.Map:
		for _, k := range a.MapKeys() {
			bv := b.MapIndex(k)
			if bv.IsValid() && !sameGoTypes(a.MapIndex(k), bv, depth+1) {
				return false
			}
		}
	}
	return true
}

// boundary elements per scalar kind (forcing every UBJSON element marker up to $H)
func c10Elems(kind string, size int) []model.Ev {
	var pool []model.Ev
	switch kind {
	case model.KBool:
		pool = []model.Ev{{K: kind, B: true}, {K: kind, B: false}, {K: kind, B: true}}
	case model.KStr:
		pool = []model.Ev{{K: kind, S: []byte("a\"é\n")}, {K: kind, S: []byte{}}, {K: kind, S: []byte("<x>&")}}
	case model.KI8:
		pool = []model.Ev{{K: kind, I: -128}, {K: kind, I: 127}, {K: kind, I: 0}}
	case model.KI16:
		pool = []model.Ev{{K: kind, I: -32768}, {K: kind, I: 200}, {K: kind, I: -200}}
	case model.KI32:
		pool = []model.Ev{{K: kind, I: math.MinInt32}, {K: kind, I: 70000}, {K: kind, I: -1}}
	case model.KI64, model.KInt:
		pool = []model.Ev{{K: kind, I: math.MinInt64}, {K: kind, I: math.MaxInt64}, {K: kind, I: 1 << 40}}
	case model.KU8:
		pool = []model.Ev{{K: kind, U: 255}, {K: kind, U: 128}, {K: kind, U: 0}}
	case model.KU16:
		pool = []model.Ev{{K: kind, U: 65535}, {K: kind, U: 256}, {K: kind, U: 1}}
	case model.KU32:
		pool = []model.Ev{{K: kind, U: math.MaxUint32}, {K: kind, U: 1 << 31}, {K: kind, U: 2}}
	case model.KU64, model.KUint:
		pool = []model.Ev{{K: kind, U: math.MaxUint64}, {K: kind, U: 2}, {K: kind, U: 1 << 63}}
	case model.KF32:
		pool = []model.Ev{{K: kind, F: uint64(math.Float32bits(1.5))}, {K: kind, F: uint64(math.Float32bits(-0.1))}, {K: kind, F: 0}}
	case model.KF64:
		pool = []model.Ev{{K: kind, F: math.Float64bits(1e300)}, {K: kind, F: math.Float64bits(-2.5)}, {K: kind, F: math.Float64bits(1)}}
	}
	if size <= len(pool) {
		return pool[:size]
	}
	out := make([]model.Ev, size)
	for i := range out {
		out[i] = pool[i%len(pool)]
	}
	return out
}

func enumC10(emit func(c any) bool) {
	var events []model.Ev
	// sizes: empty, one, a few boundary values, and the length boundaries of the
	// binary formats' count fields (127/128, 255/256)
	for _, size := range []int{0, 1, 3, 127, 128, 255, 256} {
		for _, k := range model.ArrElemKinds {
			events = append(events, model.Ev{K: "a:" + k, E: c10Elems(k, size)})
		}
		bs := make([]byte, size)
		for i := range bs {
			bs[i] = []byte{0, 255, 7}[i%3]
		}
		events = append(events, model.Ev{K: model.KBytes, S: bs})
		for _, k := range model.ObjElemKinds {
			e := model.Ev{K: "o:" + k, E: c10Elems(k, size)}
			for i := 0; i < size; i++ {
				if i < 3 {
					e.Keys = append(e.Keys, []byte([]string{"k", "", "é k"}[i]))
				} else {
					e.Keys = append(e.Keys, []byte(fmt.Sprintf("k%d", i)))
				}
			}
			events = append(events, e)
		}
	}
	events = append(events, model.Ev{K: model.KStrRef, S: []byte("ref\"é")}, model.Ev{K: model.KStrRef, S: []byte{}}, model.Ev{K: model.KKeyRef, S: []byte("kr")}, model.Ev{K: model.KKeyRef, S: []byte{}})
	sib := []model.Ev{{K: model.KI8, I: 5}, {K: model.KStr, S: []byte("after")}}
	for _, consumer := range c10Consumers {
		for _, ev := range events {
			big := len(ev.E) > 3 || len(ev.S) > 8
			for _, pos := range []string{"top", "array", "object"} {
				if ev.K == model.KKeyRef && pos != "object" {
					continue
				}
				if big && pos == "object" {
					continue
				}
				for _, withSib := range []bool{false, true} {
					if pos == "top" && withSib {
						continue
					}
					if big && !withSib && pos != "top" {
						continue
					}
					for _, ann := range []bool{false, true} {
						if pos == "top" && ann {
							continue
						}
						variants := 1
						if consumer == "unfold_typed" {
							if pos == "array" || big {
								continue
							}
							variants = 19 // at least every variant of c10Target
						}
						for tv := 0; tv < variants; tv++ {
							c := &C10Case{Consumer: consumer, Pos: pos, Announce: ann, Ev: ev, Opts: EncOpts{IgnoreInvalidFloat: true}, TVar: tv}
							if withSib {
								c.Sib = sib
								c.Pre = []model.Ev{{K: model.KBool, B: true}}
							}
							if !emit(c) {
								return
							}
						}
					}
				}
			}
		}
	}
}

func drawC10(t *rapid.T) any {
	c := &C10Case{Consumer: rapid.SampledFrom(c10Consumers).Draw(t, "consumer")}
	if c.Consumer == "json" {
		c.Opts = drawOpts(t)
	}
	switch rapid.IntRange(0, 9).Draw(t, "evk") {
	case 0:
		c.Ev = model.Ev{K: model.KStrRef, S: gen.Str(t, false, "sr")}
	case 1:
		c.Ev = model.Ev{K: model.KKeyRef, S: gen.Key(t, false, "kr")}
	default:
		c.Ev = drawExtEvent(t)
	}
	c.Pos = rapid.SampledFrom([]string{"top", "array", "object"}).Draw(t, "pos")
	if c.Ev.K == model.KKeyRef {
		c.Pos = "object"
	}
	if c.Consumer == "unfold_typed" {
		c.TVar = rapid.IntRange(0, 40).Draw(t, "tvar")
		if c.Pos == "array" {
			c.Pos = "object"
		}
	}
	if c.Pos != "top" {
		c.Announce = rapid.Bool().Draw(t, "announce")
		scalars := func(label string) []model.Ev {
			n := rapid.IntRange(0, 3).Draw(t, label)
			var out []model.Ev
			for i := 0; i < n; i++ {
				evs, _ := gen.Stream(t, gen.StreamCfg{MaxDepth: -1})
				out = append(out, evs...)
			}
			return out
		}
		c.Pre = scalars("npre")
		c.Sib = scalars("nsib")
	}
	return c
}

func init() {
	register(&Property{
		ID:    "C10",
		Rule:  "deterministic matrix: all 15 typed array events, OnBytes, all 14 typed map events, OnStringRef, OnKeyRef x sizes {0,1,3 with boundary values forcing every UBJSON element marker up to $H} x position {top, array element, object member} x {no sibling, siblings before and after} x {unknown, announced parent length} x consumers {json, cborl, ubjson encoders, Unfolder into interface{}, Unfolder into typed targets chosen by the event kind (plain, through pointers, through user unfolders, named types, interface{}; as whole target or as a struct field next to unknown members), EnsureExtVisitor(plain visitor)}; rapid adds arbitrary contents/siblings/options; oracle = output of the extended call and of its expansion both decode (reference decoder) to the stream's value, consumer stacks (hooks) idle afterwards, unfolded values and Go types equal, wrapped visitor records the expansion; non-trivial = the event is nested or followed by further events; distinct by case hash",
		New:   func() any { return &C10Case{} },
		Draw:  drawC10,
		Check: checkC10,
		Enum:  enumC10,
	})
}

// dedupLastWins gives objects map semantics: of duplicate members the last one
// survives (at its position).
func dedupLastWins(v model.V) model.V {
	switch v.K {
	case model.VArr:
		out := v
		out.A = make([]model.V, len(v.A))
		for i, x := range v.A {
			out.A[i] = dedupLastWins(x)
		}
		return out
	case model.VObj:
		out := v
		out.O = nil
		last := map[string]int{}
		for i, m := range v.O {
			last[string(m.Key)] = i
		}
		for i, m := range v.O {
			if last[string(m.Key)] == i {
				out.O = append(out.O, model.Member{Key: m.Key, Val: dedupLastWins(m.Val)})
			}
		}
		if out.O == nil {
			out.O = []model.Member{}
		}
		return out
	}
	return v
}
