package props

import (
	"fmt"
	"reflect"

	structform "github.com/elastic/go-structform"
	"github.com/elastic/go-structform/gotype"

	"verif/harness/gomodel"
	"verif/harness/model"
)

// Hand-written scenarios: sequences over types that neither reflect.StructOf
// nor the pool can express (mutually recursive types with an unsupported
// member, non-empty interface targets, invalid options). Each is a fixed,
// replayable case (kind/note "scenario:<name>") of the enumerated part of the
// property it belongs to; the oracle is stated per scenario.

type scA struct {
	B *scB
	C chan int
}
type scB struct{ A *scA }

type scStringer interface{ String() string }

type scStr struct{ S scStringer }

// foldScenario runs the named fold-side scenario (C12).
func foldScenario(name string) string {
	switch name {
	case "bad_option":
		// an invalid option: Fold must not report success without emitting the value
		rec := &model.Recorder{}
		o := guard(func() error { return gotype.Fold(int64(7), rec, gotype.Folders(42)) })
		if o.Panicked() {
			return fmt.Sprintf("Fold with an invalid Folders option panics: %v", o.Panic)
		}
		if o.Err == nil && len(rec.Evs) != 1 {
			return fmt.Sprintf("Fold(7, visitor, Folders(42)) returns nil but emitted %v instead of the value", truncEvs(rec.Evs))
		}
	case "refused_then_related":
		// A is refused (chan member); B refers to A: folding B on the same iterator
		// must be refused with an error too, not crash
		rec := &model.Recorder{}
		var first, second error
		o := guard(func() error {
			it, err := gotype.NewIterator(rec)
			if err != nil {
				return err
			}
			first = it.Fold(scA{})
			second = it.Fold(scB{A: &scA{}})
			return nil
		})
		if o.Panicked() {
			return fmt.Sprintf("one iterator: Fold(A{}) = %v (A has a chan member), then Fold(B{A: &A{}}) panics: %v\n%s", first, o.Panic, o.Stack)
		}
		if o.Err != nil {
			return "NewIterator fails: " + o.Err.Error()
		}
		if first == nil || second == nil {
			return fmt.Sprintf("a type with a chan member is folded without error (A: %v, B holding *A: %v)", first, second)
		}
	default:
		return "harness: unknown scenario " + name
	}
	return ""
}

// unfoldScenario runs the named unfold-side scenario (C14): targets of a
// non-empty interface type can hold none of the values a stream delivers; the
// only acceptable outcomes are an error, or success that leaves a usable target.
func unfoldScenario(name string) string {
	if name == "refused_then_related" {
		// A is refused (chan member); B refers to A: SetTarget(&B) on the same
		// unfolder and a document for it must end in an error (or a usable
		// target), not in a crash
		var first, second, third error
		o := guard(func() error {
			u, err := gotype.NewUnfolder(nil)
			if err != nil {
				return err
			}
			first = u.SetTarget(&scA{})
			b := &scB{}
			second = u.SetTarget(b)
			if second == nil {
				_, third = model.Apply([]model.Ev{{K: model.KObjStart, L: 1}, {K: model.KKey, S: []byte("a")}, {K: model.KObjStart, L: 1}, {K: model.KKey, S: []byte("b")}, {K: model.KNil}, {K: model.KObjEnd}, {K: model.KObjEnd}}, structform.Visitor(u))
			}
			return nil
		})
		if o.Panicked() {
			return fmt.Sprintf("one unfolder: SetTarget(&A{}) = %v (A has a chan member), SetTarget(&B{}) = %v (B holds *A), then unfolding {\"a\":{\"b\":null}} panics: %v\n%s", first, second, o.Panic, o.Stack)
		}
		if o.Err != nil {
			return "NewUnfolder fails: " + o.Err.Error()
		}
		if first == nil {
			return "SetTarget accepts a struct with a chan member"
		}
		_ = third
		return ""
	}
	str := model.Ev{K: model.KStr, S: []byte("hello")}
	values := [][]model.Ev{
		{str}, {{K: model.KStrRef, S: []byte("ref")}}, {{K: model.KInt, I: 7}}, {{K: model.KBool, B: true}}, {{K: model.KF64, F: 0x3ff8000000000000}}, {{K: model.KNil}},
		{{K: model.KObjStart, L: 1}, {K: model.KKey, S: []byte("x")}, {K: model.KInt, I: 1}, {K: model.KObjEnd}},
		{{K: model.KArrStart, L: -1}, str, {K: model.KArrEnd}},
	}
	inObj := func(v []model.Ev) []model.Ev {
		out := []model.Ev{{K: model.KObjStart, L: 1}, {K: model.KKey, S: []byte("s")}}
		return append(append(out, v...), model.Ev{K: model.KObjEnd})
	}
	inArr := func(v []model.Ev) []model.Ev {
		return append(append([]model.Ev{{K: model.KArrStart, L: 1}}, v...), model.Ev{K: model.KArrEnd})
	}
	for _, val := range values {
		var target any
		var use func() string
		var evs []model.Ev
		switch name {
		case "stringer_field":
			t := &scStr{}
			target, evs = t, inObj(val)
			use = func() string { return fmt.Sprint(t.S) }
		case "error_slice":
			t := &[]error{}
			target, evs = t, inArr(val)
			use = func() string { return fmt.Sprint(*t) }
		case "error_map":
			t := &map[string]error{}
			target, evs = t, inObj(val)
			use = func() string { return fmt.Sprint(*t) }
		case "stringer_top":
			t := new(scStringer)
			target, evs = t, val
			use = func() string { return fmt.Sprint(*t) }
		case "stringer_nested":
			t := &struct{ A []map[string]scStringer }{}
			target = t
			evs = []model.Ev{{K: model.KObjStart, L: 1}, {K: model.KKey, S: []byte("a")}}
			evs = append(append(evs, inArr(inObj(val))...), model.Ev{K: model.KObjEnd})
			use = func() string { return fmt.Sprint(t.A) }
		default:
			return "harness: unknown scenario " + name
		}
		var u *gotype.Unfolder
		o := guard(func() error {
			var err error
			u, err = gotype.NewUnfolder(target)
			return err
		})
		if o.Panicked() {
			return fmt.Sprintf("NewUnfolder(%T) panics: %v", target, o.Panic)
		}
		if o.Err != nil {
			continue // refused
		}
		o = guard(func() error { _, err := model.Apply(evs, structform.Visitor(u)); return err })
		if o.Panicked() {
			return fmt.Sprintf("unfolding %v into %T panics: %v", truncEvs(evs), target, o.Panic)
		}
		if o.Err != nil {
			continue
		}
		// success: the target must be usable Go data; only null can be held by
		// an interface none of the delivered values implements
		o = guard(func() error { _ = use(); return nil })
		if o.Panicked() {
			return fmt.Sprintf("unfolding %v into %T (a non-empty interface type) reports success but leaves a corrupted target: using it panics: %v", truncEvs(evs), target, o.Panic)
		}
		if val[0].K != model.KNil {
			return fmt.Sprintf("unfolding %v into %T reports success although no delivered value can implement the interface (target type %v)", truncEvs(evs), target, reflect.TypeOf(target).Elem())
		}
	}
	return ""
}

var foldScenarios = []string{"bad_option", "refused_then_related"}
var unfoldScenarios = []string{"stringer_field", "error_slice", "error_map", "stringer_top", "stringer_nested", "refused_then_related"}

var _ = gomodel.Pool
