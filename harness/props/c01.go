package props

import (
	"bytes"
	"fmt"

	"pgregory.net/rapid"

	"verif/harness/gen"
	"verif/harness/model"
)

// C01 — encode → decode preserves the value (own encoder, own parser).

type C01Case struct {
	Format string     `json:"format"`
	Opts   EncOpts    `json:"opts"`
	Evs    []model.Ev `json:"evs"`
}

func rulesFor(format string, o EncOpts) model.Rules {
	switch format {
	case "json":
		return model.Rules{JSONFloat: true, JSONStrings: true, NonFiniteNull: true}
	case "ubjson":
		return model.Rules{UBJSONBigUint: true}
	}
	return model.Rules{}
}

func hasNonFinite(evs []model.Ev) bool {
	for _, e := range evs {
		if isNonFiniteEv(e) {
			return true
		}
		for _, x := range e.E {
			if isNonFiniteEv(x) {
				return true
			}
		}
	}
	return false
}

func isNonFiniteEv(e model.Ev) bool {
	switch e.K {
	case model.KF32:
		return uint32(e.F)&0x7f800000 == 0x7f800000
	case model.KF64:
		return e.F&0x7ff0000000000000 == 0x7ff0000000000000
	}
	return false
}

func drawOpts(t *rapid.T) EncOpts {
	return EncOpts{
		EscapeHTML:         rapid.Bool().Draw(t, "escapeHTML"),
		ExplicitRadixPoint: rapid.Bool().Draw(t, "radix"),
		IgnoreInvalidFloat: rapid.Bool().Draw(t, "ignoreInvalidFloat"),
	}
}

func streamNonTrivial(feat map[string]bool, evs []model.Ev) bool {
	if len(evs) > 1 {
		return true
	}
	for _, k := range []string{"boundaryint", "biguint", "float", "strspecial", "ext", "nonfinite"} {
		if feat[k] {
			return true
		}
	}
	return false
}

func featsOf(evs []model.Ev) map[string]bool {
	f := map[string]bool{}
	depth := 0
	for _, e := range evs {
		switch e.K {
		case model.KArrStart, model.KObjStart:
			depth++
			if depth > 1 {
				f["nested"] = true
			}
			if e.L >= 0 {
				f["announced"] = true
			}
		case model.KArrEnd, model.KObjEnd:
			depth--
		case model.KKey, model.KKeyRef:
			if len(e.S) == 0 {
				f["emptykey"] = true
			}
		case model.KF32, model.KF64:
			f["float"] = true
			if isNonFiniteEv(e) {
				f["nonfinite"] = true
			}
		case model.KU64, model.KUint:
			if e.U > 1<<63-1 {
				f["biguint"] = true
			}
		}
		if e.IsExt() {
			for _, x := range e.E {
				if isNonFiniteEv(x) {
					f["nonfinite"] = true
				}
				if x.K == model.KF32 || x.K == model.KF64 {
					f["float"] = true
				}
				if (x.K == model.KU64 || x.K == model.KUint) && x.U > 1<<63-1 {
					f["biguint"] = true
				}
			}
			f["ext"] = true
			if len(e.E) == 0 && len(e.S) == 0 {
				f["extempty"] = true
			}
		}
	}
	return f
}

// encodeStream replays evs into a fresh encoder of the format.
func encodeStream(cd *codec, o EncOpts, evs []model.Ev) ([]byte, Outcome) {
	var buf bytes.Buffer
	vis := cd.NewVisitor(&buf, o)
	out := guard(func() error { _, err := model.Apply(evs, vis); return err })
	return buf.Bytes(), out
}

func checkC01(ci any, info *CaseInfo) string {
	c := ci.(*C01Case)
	cd := codecs[c.Format]
	if cd == nil {
		return "harness: unknown format " + c.Format
	}
	exp, err := model.Tree(c.Evs)
	if err != nil {
		return "harness: generated stream is not well formed: " + err.Error()
	}
	f := featsOf(c.Evs)
	info.NonTrivial = len(c.Evs) > 1 || f["float"] || f["biguint"] || f["ext"] || scalarIsSpecial(c.Evs)
	info.Class("format:" + c.Format)
	for k := range f {
		info.Class(k)
	}

	data, eo := encodeStream(cd, c.Opts, c.Evs)
	if eo.Panicked() {
		return fmt.Sprintf("%s encoder panicked: %v\n%s", c.Format, eo.Panic, eo.Stack)
	}
	if eo.Err != nil {
		if c.Format == "json" && f["nonfinite"] && !c.Opts.IgnoreInvalidFloat {
			info.Class("json_refused_nonfinite")
			return "" // refusing non-finite floats is the documented behaviour
		}
		return fmt.Sprintf("%s encoder returned an error for a well-formed stream: %v", c.Format, eo.Err)
	}

	rec := &model.Recorder{}
	po := guard(func() error { return cd.Parse(data, rec) })
	if po.Panicked() {
		return fmt.Sprintf("%s parser panicked on the encoder's own output %x: %v\n%s", c.Format, data, po.Panic, po.Stack)
	}
	if po.Err != nil {
		return fmt.Sprintf("%s parser rejected the encoder's own output %q (%x): %v", c.Format, trunc(data), trunc(data), po.Err)
	}
	if m := rec.RetainedIntact(); m != "" {
		return fmt.Sprintf("%s parser on %q: %s", c.Format, trunc(data), m)
	}
	got, err := model.Tree(rec.Evs)
	if err != nil {
		return fmt.Sprintf("%s parser produced a malformed event stream from %x: %v", c.Format, trunc(data), err)
	}
	if d := model.Diff(exp, got, rulesFor(c.Format, c.Opts)); d != "" {
		return fmt.Sprintf("%s round trip changed the value: %s (encoded: %q / %x)", c.Format, d, trunc(data), trunc(data))
	}
	return ""
}

func trunc(b []byte) []byte {
	if len(b) > 300 {
		return b[:300]
	}
	return b
}

func scalarIsSpecial(evs []model.Ev) bool {
	if len(evs) != 1 {
		return false
	}
	e := evs[0]
	switch e.K {
	case model.KStr, model.KStrRef:
		for _, c := range e.S {
			if c >= 0x80 || c < 0x20 || c == '"' || c == '\\' {
				return true
			}
		}
		return len(e.S) >= 23
	case model.KI8, model.KI16, model.KI32, model.KI64, model.KInt:
		return e.I >= 24 || e.I < -24
	case model.KByte, model.KU8, model.KU16, model.KU32, model.KU64, model.KUint:
		return e.U >= 24
	}
	return false
}

func init() {
	register(&Property{
		ID:   "C01",
		Rule: "rapid draws a well-formed event stream (gen.Stream: nesting, boundary integers, float bit patterns, arbitrary byte strings, empty/duplicate/non-ASCII keys, announced/unknown lengths, extended events; 1 in 40 a chain nested 31..140 deep with siblings in front of and behind the deep child at every level) x format x JSON options; deterministic part: nesting depths around every power of two up to 1024 as arrays, objects and alternating, with siblings on both sides of the deep child, announced and unknown lengths; non-trivial = the stream has more than one event, or its single scalar is a float, an integer outside [-24,23], or a string with a non-ASCII/escape byte or >= 23 bytes; distinct by hash of the whole case",
		New:  func() any { return &C01Case{} },
		Draw: func(t *rapid.T) any {
			c := &C01Case{Format: rapid.SampledFrom(formatNames).Draw(t, "format")}
			if c.Format == "json" {
				c.Opts = drawOpts(t)
			}
			c.Evs, _ = gen.Stream(t, gen.StreamCfg{Ext: true, Refs: true, Deep: true})
			return c
		},
		Check: checkC01,
		Enum:  enumDeepStreams,
	})
}
