package props

import (
	"testing"

	"verif/harness/ref"
)

// Native fuzz targets (thorough tier): the oracle sits inside the target; the
// extra argument selects entry point, chunking and buffer size.

func c03FromFuzz(format string, data []byte, sel uint32) *C03Case {
	c := &C03Case{Format: format, Data: data, Kind: "fuzz", Entry: c03Entries[int(sel)%len(c03Entries)]}
	sel /= uint32(len(c03Entries))
	if n := len(data); n > 1 {
		switch sel % 4 {
		case 1: // single cut
			c.Cuts = []int{1 + int(sel/4)%(n-1)}
		case 2: // every byte (bounded)
			if n <= 512 {
				for i := 1; i < n; i++ {
					c.Cuts = append(c.Cuts, i)
				}
			}
		case 3: // stride
			step := 1 + int(sel/4)%7
			for i := step; i < n; i += step {
				c.Cuts = append(c.Cuts, i)
			}
		}
	}
	c.EOFData = sel&0x100 != 0
	c.BufSize = []int{1, 2, 3, 7, 16, 64, 4096}[int(sel>>9)%7]
	return c
}

func fuzzC03(f *testing.F, format string) {
	for _, h := range c03Hostile[format] {
		f.Add([]byte(h), uint32(0))
		f.Add([]byte(h), uint32(9))
	}
	for _, d := range c02EnumDocs[format] {
		f.Add([]byte(d), uint32(1))
		f.Add([]byte(d), uint32(5+6*2))
	}
	p := registry["C03"]
	f.Fuzz(func(t *testing.T, data []byte, sel uint32) {
		if len(data) > 1<<16 {
			return
		}
		if msg := execCase(p, c03FromFuzz(format, data, sel), "fuzz"); msg != "" {
			t.Fatal(msg)
		}
	})
}

func FuzzC03JSON(f *testing.F)   { fuzzC03(f, "json") }
func FuzzC03CBOR(f *testing.F)   { fuzzC03(f, "cborl") }
func FuzzC03UBJSON(f *testing.F) { fuzzC03(f, "ubjson") }

// FuzzC05: differential against the reference CBOR decoder on arbitrary bytes:
// whenever the reference says "exactly one well-formed item", the C05 oracle
// applies (value equality inside the subset, refusal outside).
func FuzzC05(f *testing.F) {
	for _, d := range c02EnumDocs["cborl"] {
		f.Add([]byte(d))
	}
	for _, h := range cborUnsupportedItems {
		f.Add(h)
	}
	p := registry["C05"]
	f.Fuzz(func(t *testing.T, data []byte) {
		if len(data) == 0 || len(data) > 1<<14 {
			return
		}
		_, n, st, _ := ref.DecodeCBOR(data)
		if st != ref.OK || n != len(data) {
			return
		}
		if msg := execCase(p, &DocCase{Doc: data, Note: "fuzz"}, "fuzz"); msg != "" {
			t.Fatal(msg)
		}
	})
}

// FuzzC06: differential against the reference UBJSON decoder on arbitrary bytes.
func FuzzC06(f *testing.F) {
	for _, d := range c02EnumDocs["ubjson"] {
		f.Add([]byte(d))
	}
	p := registry["C06"]
	f.Fuzz(func(t *testing.T, data []byte) {
		if len(data) == 0 || len(data) > 1<<14 {
			return
		}
		_, n, st, info := ref.DecodeUBJSON(data)
		if st != ref.OK || n != len(data) || info.Ambiguous || info.ZeroSized > 4096 {
			return
		}
		if msg := execCase(p, &DocCase{Doc: data, Note: "fuzz"}, "fuzz"); msg != "" {
			t.Fatal(msg)
		}
	})
}
