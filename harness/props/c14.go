package props

import (
	"fmt"
	"reflect"

	"github.com/elastic/go-structform/gotype"
	"pgregory.net/rapid"

	"verif/harness/gen"
	"verif/harness/gomodel"
	"verif/harness/model"
)

// C14 — a mismatching document makes Unfold return an error, never crash or
// corrupt; an announced length is a hint; Reset works after abandonment.

type C14Case struct {
	Type    gomodel.TypeDesc `json:"type"`
	Evs     []model.Ev       `json:"evs"`
	Abandon int              `json:"abandon"` // number of events delivered before the document is abandoned (-1: all)
	Kind    string           `json:"kind,omitempty"`
	// Probe2 is a matching stream (some members omitted, unknown members added)
	// for a second value of the SAME type, delivered after Reset+SetTarget:
	// whatever an unfolder keeps per type must not leak into the next document.
	Probe2 []model.Ev `json:"probe2,omitempty"`
	// Pre: the target variable already holds this value (non-nil slices with
	// spare capacity, maps with entries, allocated pointers) when the document
	// arrives; the result is then only checked for safety, not for its value
	Pre *gomodel.GoVal `json:"pre,omitempty"`
	// Repeat: the document is delivered (and abandoned / failed) this many more
	// times, each followed by Reset + SetTarget(new variable), before the probes:
	// whatever a Reset leaves behind accumulates
	Repeat int `json:"repeat,omitempty"`
}

const sentinelWord = 0xA5A5F00DCAFE5A5A

// guardedTarget embeds a value of typ between two sentinel blocks.
func guardedTarget(typ reflect.Type) (wrapper reflect.Value, target reflect.Value) {
	u64x4 := reflect.TypeOf([4]uint64{})
	wt := reflect.StructOf([]reflect.StructField{
		{Name: "Pre", Type: u64x4},
		{Name: "T", Type: typ},
		{Name: "Post", Type: u64x4},
	})
	w := reflect.New(wt).Elem()
	for i := 0; i < 4; i++ {
		w.Field(0).Index(i).SetUint(sentinelWord)
		w.Field(2).Index(i).SetUint(sentinelWord)
	}
	return w, w.Field(1).Addr()
}

func sentinelsIntact(w reflect.Value) bool {
	for i := 0; i < 4; i++ {
		if w.Field(0).Index(i).Uint() != sentinelWord || w.Field(2).Index(i).Uint() != sentinelWord {
			return false
		}
	}
	return true
}

var probeType = gomodel.TypeDesc{Kind: "struct", Fields: []gomodel.FieldDesc{
	{Name: "A", Type: gomodel.TypeDesc{Kind: "int"}},
	{Name: "B", Type: gomodel.TypeDesc{Kind: "slice", Elem: &gomodel.TypeDesc{Kind: "string"}}},
	{Name: "C", Type: gomodel.TypeDesc{Kind: "map", Elem: &gomodel.TypeDesc{Kind: "iface"}}},
	{Name: "D", Type: gomodel.TypeDesc{Kind: "ptr", Elem: &gomodel.TypeDesc{Kind: "struct", Fields: []gomodel.FieldDesc{{Name: "X", Type: gomodel.TypeDesc{Kind: "float64"}}}}}},
}}

var probeEvs = []model.Ev{
	{K: model.KObjStart, L: -1},
	{K: model.KKey, S: []byte("a")}, {K: model.KI8, I: 42},
	{K: model.KKeyRef, S: []byte("b")}, {K: model.KArrStart, L: 2}, {K: model.KStr, S: []byte("x")}, {K: model.KStrRef, S: []byte("y")}, {K: model.KArrEnd},
	{K: model.KKey, S: []byte("c")}, {K: model.KObjStart, L: 1}, {K: model.KKey, S: []byte("k")}, {K: model.KArrStart, L: -1, T: 6}, {K: model.KI8, I: 1}, {K: model.KArrEnd}, {K: model.KObjEnd},
	{K: model.KKey, S: []byte("unknown")}, {K: model.KObjStart, L: -1}, {K: model.KKey, S: []byte("z")}, {K: model.KNil}, {K: model.KObjEnd},
	{K: model.KKey, S: []byte("d")}, {K: model.KObjStart, L: -1}, {K: model.KKey, S: []byte("x")}, {K: model.KF64, F: 0x3ff8000000000000}, {K: model.KObjEnd},
	{K: model.KObjEnd},
}

func eventWork(evs []model.Ev) (n int, strBytes int) {
	for _, e := range evs {
		n++
		strBytes += len(e.S)
		for _, x := range e.E {
			n++
			strBytes += len(x.S)
		}
		for _, k := range e.Keys {
			strBytes += len(k)
		}
	}
	return
}

func checkC14(ci any, info *CaseInfo) string {
	c := ci.(*C14Case)
	if len(c.Kind) > 9 && c.Kind[:9] == "scenario:" {
		info.Class("scenario")
		info.NonTrivial = true
		return unfoldScenario(c.Kind[9:])
	}
	typ, err := gomodel.Build(&c.Type)
	if err != nil {
		return err.Error()
	}
	info.Class("kind:" + c.Kind)
	evs := c.Evs
	abandoned := c.Abandon >= 0 && c.Abandon < len(evs)
	if abandoned {
		evs = evs[:c.Abandon]
		info.Class("abandoned")
	}
	desc := fmt.Sprintf("target type %s, stream %v (abandoned after %d)", &c.Type, truncEvs(c.Evs), c.Abandon)
	if len(desc) > 1500 {
		desc = desc[:1500] + "…"
	}

	wrapper, target := guardedTarget(typ)
	if c.Pre != nil {
		if rv, err := gomodel.Materialize(typ, c.Pre); err == nil {
			info.Class("prefilled_target")
			target.Elem().Set(rv)
			growCaps(target.Elem(), func() reflect.Value { w, _ := gomodel.Materialize(typ, c.Pre); return w })
		}
	}
	var u *gotype.Unfolder
	o := guard(func() error {
		var err error
		u, err = newUnfolder(target.Interface())
		return err
	})
	if o.Panicked() {
		return fmt.Sprintf("NewUnfolder panics: %v\n%s\n  %s", o.Panic, o.Stack, desc)
	}
	if o.Err != nil {
		info.Class("target_refused")
		return "" // refusing a target with an error is always fine
	}
	var failedAt = -1
	o = guardAlloc(func() error {
		n, err := model.ApplyScribble(evs, u)
		if err != nil {
			failedAt = n
		}
		return err
	})
	if o.Panicked() {
		return fmt.Sprintf("unfolding panics: %v\n%s\n  %s", o.Panic, o.Stack, desc)
	}
	if !sentinelsIntact(wrapper) {
		return fmt.Sprintf("unfolding wrote outside the target value (sentinel words around it were overwritten)\n  %s", desc)
	}
	nev, sb := eventWork(evs)
	bound := uint64(256<<10) + 512*uint64(nev) + 8*uint64(sb)
	if o.AllocB > bound {
		return fmt.Sprintf("unfolding allocated %d bytes for %d events and %d string bytes (bound %d): allocation out of proportion to the events received\n  %s", o.AllocB, nev, sb, bound, desc)
	}
	info.Class("outcome:" + o.Class())
	mismatchDepth := 0
	if failedAt >= 0 {
		mismatchDepth = depthAt(evs, failedAt)
		info.Class(fmt.Sprintf("error_at_depth:%d", min(mismatchDepth, 3)))
	}
	info.NonTrivial = (o.Err != nil && mismatchDepth >= 1) || (abandoned && depthAt(c.Evs, c.Abandon) >= 2)

	// a success must be the model's value
	if o.Err == nil && !abandoned && c.Kind != "unbacked_length" {
		if streamV, terr := model.Tree(evs); terr == nil {
			expected := reflect.New(typ)
			lossy, merr := gomodel.AssignTrack(expected.Elem(), streamV)
			switch {
			case merr != nil:
				return fmt.Sprintf("unfolding reports success although the stream does not match the target (%v); result %+v\n  %s", merr, safeInterface(target.Elem()), desc)
			case c.Pre != nil:
				info.Class("prefilled_not_compared")
			case !lossy:
				if d := gomodel.GoEqual(expected.Elem(), target.Elem(), false); d != "" {
					return fmt.Sprintf("unfolding reports success with another value than the stream holds: %s\n  expected %+v\n  got      %+v\n  %s", d, safeInterface(expected.Elem()), safeInterface(target.Elem()), desc)
				}
			default:
				info.Class("lossy_conversion_not_compared")
			}
		}
	}

	if c.Repeat > 0 {
		info.Class("repeated_cycles")
		for i := 0; i < c.Repeat; i++ {
			_, tn := guardedTarget(typ)
			ro := guard(func() error {
				u.Reset()
				return u.SetTarget(tn.Interface())
			})
			if ro.Panicked() || ro.Err != nil {
				return fmt.Sprintf("Reset+SetTarget(same type) fails in cycle %d of %d: %v\n  %s", i+1, c.Repeat, ro, desc)
			}
			ro = guard(func() error { _, err := model.ApplyScribble(evs, u); return err })
			if ro.Panicked() {
				return fmt.Sprintf("unfolding panics in cycle %d of %d: %v\n%s\n  %s", i+1, c.Repeat, ro.Panic, ro.Stack, desc)
			}
			if ro.Class() != o.Class() {
				return fmt.Sprintf("the same document on the same unfolder ends with %v in cycle %d of %d and with %v the first time\n  %s", ro, i+1, c.Repeat, o, desc)
			}
		}
	}

	// Reset + SetTarget(new variable of the same type) + a matching document
	if len(c.Probe2) > 0 {
		info.Class("same_type_probe")
		w2, t2 := guardedTarget(typ)
		ro := guard(func() error {
			u.Reset()
			return u.SetTarget(t2.Interface())
		})
		if ro.Panicked() || ro.Err != nil {
			return fmt.Sprintf("Reset+SetTarget(same type) after the document fails: %v\n  %s", ro, desc)
		}
		po := guard(func() error { _, err := model.ApplyScribble(c.Probe2, u); return err })
		fresh := reflect.New(typ)
		fu, ferr := newUnfolder(fresh.Interface())
		if ferr != nil {
			return "harness: " + ferr.Error()
		}
		fo := guard(func() error { _, err := model.ApplyScribble(c.Probe2, fu); return err })
		if po.Panicked() || po.Class() != fo.Class() {
			return fmt.Sprintf("after Reset+SetTarget a second document for the same type ends with %v, on a new unfolder with %v\n  second document %v\n  %s", po, fo, truncEvs(c.Probe2), desc)
		}
		if po.Err == nil {
			if d := gomodel.GoEqual(fresh.Elem(), t2.Elem(), true); d != "" {
				return fmt.Sprintf("after Reset+SetTarget a second document for the same type yields another value than on a new unfolder: %s\n  reused: %+v\n  new:    %+v\n  second document %v\n  %s", d, safeInterface(t2.Elem()), safeInterface(fresh.Elem()), truncEvs(c.Probe2), desc)
			}
		}
		if !sentinelsIntact(w2) {
			return "the second document wrote outside its target"
		}
	}

	// Reset + SetTarget + probe document: as a new unfolder would
	pt, _ := gomodel.Build(&probeType)
	pw, ptarget := guardedTarget(pt)
	ro := guard(func() error {
		u.Reset()
		return u.SetTarget(ptarget.Interface())
	})
	if ro.Panicked() || ro.Err != nil {
		return fmt.Sprintf("Reset+SetTarget after the document fails: %v\n  %s", ro, desc)
	}
	if d := u.VerifDepths(); d != [7]int{1, 1, 0, 0, 0, 0, 0} && d != (func() [7]int { f, _ := gotype.NewUnfolder(reflect.New(pt).Interface()); return f.VerifDepths() })() {
		return fmt.Sprintf("after Reset+SetTarget the unfolder stacks differ from a new unfolder's: %v\n  %s", d, desc)
	}
	po := guard(func() error { _, err := model.Apply(probeEvs, u); return err })
	fresh := reflect.New(pt)
	fu, _ := gotype.NewUnfolder(fresh.Interface())
	fo := guard(func() error { _, err := model.Apply(probeEvs, fu); return err })
	if po.Panicked() || po.Class() != fo.Class() {
		return fmt.Sprintf("after Reset+SetTarget the probe document ends with %v, on a new unfolder with %v\n  %s", po, fo, desc)
	}
	if d := gomodel.GoEqual(fresh.Elem(), ptarget.Elem(), true); d != "" {
		return fmt.Sprintf("after Reset+SetTarget the probe document yields another value than on a new unfolder: %s (got %+v)\n  %s", d, safeInterface(ptarget.Elem()), desc)
	}
	if !sentinelsIntact(pw) {
		return "the probe document wrote outside its target"
	}
	return ""
}

// growCaps gives every non-nil slice in v spare capacity holding non-zero
// elements beyond its length (what a recycled target looks like). The spare
// elements are taken from fresh copies of the value (fresh()), so that they
// share no map, slice or pointer with a live element or with each other.
func growCaps(v reflect.Value, fresh func() reflect.Value) {
	growCapsAt(v, fresh, nil, 0)
}

func growCapsAt(v reflect.Value, fresh func() reflect.Value, path []int, depth int) {
	if depth > 8 {
		return
	}
	at := func(idx int) (reflect.Value, bool) {
		w := fresh()
		for _, step := range append(append([]int{}, path...), idx) {
			switch w.Kind() {
			case reflect.Ptr:
				if w.IsNil() {
					return w, false
				}
				w = w.Elem()
			case reflect.Struct:
				w = w.Field(step)
			case reflect.Slice:
				if step >= w.Len() {
					return w, false
				}
				w = w.Index(step)
			default:
				return w, false
			}
		}
		return w, true
	}
	switch v.Kind() {
	case reflect.Ptr:
		if !v.IsNil() {
			growCapsAt(v.Elem(), fresh, append(path, -1), depth+1)
		}
	case reflect.Struct:
		for i := 0; i < v.NumField(); i++ {
			if v.Field(i).CanSet() {
				growCapsAt(v.Field(i), fresh, append(path, i), depth+1)
			}
		}
	case reflect.Slice:
		if v.IsNil() || !v.CanSet() {
			return
		}
		n := v.Len()
		grown := reflect.MakeSlice(v.Type(), n+2, n+3)
		reflect.Copy(grown, v)
		if n > 0 {
			if w, ok := at(0); ok {
				grown.Index(n).Set(w)
			}
			if w, ok := at(n - 1); ok {
				grown.Index(n + 1).Set(w)
			}
		}
		v.Set(grown.Slice(0, n))
		for i := 0; i < n; i++ {
			growCapsAt(v.Index(i), fresh, append(path, i), depth+1)
		}
	}
}

func depthAt(evs []model.Ev, idx int) int {
	d := 0
	for i, e := range evs {
		if i >= idx {
			break
		}
		switch e.K {
		case model.KArrStart, model.KObjStart:
			d++
		case model.KArrEnd, model.KObjEnd:
			d--
		}
	}
	return d
}

// mutateSubtree replaces the value starting at a drawn position by another
// random value (single-node shape mutation at any depth).
func mutateSubtree(t *rapid.T, evs []model.Ev) []model.Ev {
	var starts []int
	for i, e := range evs {
		switch e.K {
		case model.KArrEnd, model.KObjEnd, model.KKey, model.KKeyRef:
		default:
			starts = append(starts, i)
		}
	}
	if len(starts) == 0 {
		return evs
	}
	lo := 0
	if len(starts) > 1 {
		lo = 1 // prefer a nested position over the top-level value
	}
	at := starts[rapid.IntRange(lo, len(starts)-1).Draw(t, "mutat")]
	end := at + 1
	if evs[at].K == model.KArrStart || evs[at].K == model.KObjStart {
		d := 0
		for j := at; j < len(evs); j++ {
			switch evs[j].K {
			case model.KArrStart, model.KObjStart:
				d++
			case model.KArrEnd, model.KObjEnd:
				d--
			}
			if d == 0 {
				end = j + 1
				break
			}
		}
	}
	repl, _ := gen.Stream(t, gen.StreamCfg{Ext: true, Refs: true, Budget: 10, MaxDepth: 2})
	if rapid.IntRange(0, 4).Draw(t, "mutkey") == 4 {
		// a key where none is expected (only legal inside objects: wrap it)
		repl = []model.Ev{{K: model.KObjStart, L: -1}, {K: model.KKey, S: []byte("k")}, {K: model.KNil}, {K: model.KObjEnd}}
	}
	out := append([]model.Ev{}, evs[:at]...)
	out = append(out, repl...)
	return append(out, evs[end:]...)
}

var hugeLens = []int{1 << 16, 1 << 20, 1 << 28, 1 << 31, 1<<31 + 1, 1 << 40, 1 << 62, 1<<63 - 1}

func drawC14(t *rapid.T) any {
	c := &C14Case{Abandon: -1}
	tcfg := gomodel.TypeCfg{Tags: true, Pool: true, InlineOnlyStruct: true, Normalising: true, Recursive: !genExcludedRecursive()}
	switch w := rapid.IntRange(0, 9).Draw(t, "c14kind"); {
	case w < 3:
		c.Kind = "independent"
		c.Type = *gomodel.DrawType(t, tcfg)
		c.Evs, _ = gen.Stream(t, gen.StreamCfg{Ext: true, Refs: true, Budget: 40})
	case w < 8:
		c.Kind = "mutated_match"
		tcfg.TopStruct = rapid.IntRange(0, 3).Draw(t, "topstruct") > 0
		tcfg.NoIface = rapid.Bool().Draw(t, "noiface") // interface{} targets accept any shape
		g := drawGoCase(t, tcfg, gomodel.ValCfg{Budget: 30})
		c.Type = g.Type
		_, rv, err := g.build()
		if err != nil {
			t.Fatalf("harness: %v", err)
		}
		v, err := gomodel.FoldModel(rv)
		if err != nil {
			c.Evs, _ = gen.Stream(t, gen.StreamCfg{Budget: 20})
			break
		}
		r := &renderer{t: t, route: "direct", perturb: rapid.Bool().Draw(t, "perturb")}
		r.render(v, &c.Evs)
		if rapid.IntRange(0, 4).Draw(t, "domut") > 0 {
			c.Evs = mutateSubtree(t, c.Evs)
		}
	default:
		c.Kind = "unbacked_length"
		g := drawGoCase(t, tcfg, gomodel.ValCfg{Budget: 30})
		c.Type = g.Type
		_, rv, _ := g.build()
		v, err := gomodel.FoldModel(rv)
		if err != nil {
			v = model.Arr(model.Int(1))
		}
		r := &renderer{t: t, route: "direct"}
		r.render(v, &c.Evs)
		// announce a huge length on one container start
		var starts []int
		for i, e := range c.Evs {
			if e.K == model.KArrStart || e.K == model.KObjStart {
				starts = append(starts, i)
			}
		}
		if len(starts) == 0 {
			c.Evs = []model.Ev{{K: model.KArrStart, L: 1 << 28}, {K: model.KI8, I: 1}, {K: model.KArrEnd}}
		} else {
			i := starts[rapid.IntRange(0, len(starts)-1).Draw(t, "hugeat")]
			c.Evs[i].L = rapid.SampledFrom(hugeLens).Draw(t, "hugelen")
		}
	}
	if rapid.IntRange(0, 2).Draw(t, "abandon") == 2 && len(c.Evs) > 0 {
		c.Abandon = rapid.IntRange(0, len(c.Evs)-1).Draw(t, "abandonat")
	}
	if rapid.IntRange(0, 7).Draw(t, "repeat") == 0 {
		c.Repeat = rapid.SampledFrom([]int{1, 3, 40, 400, 1100}).Draw(t, "repeatn")
	}
	if typ, err := gomodel.Build(&c.Type); err == nil && rapid.IntRange(0, 3).Draw(t, "pre") == 0 {
		gv := gomodel.DrawValue(t, typ, gomodel.ValCfg{Budget: 20})
		c.Pre = &gv
	}
	if typ, err := gomodel.Build(&c.Type); err == nil && rapid.IntRange(0, 3).Draw(t, "probe2") > 0 {
		gv := gomodel.DrawValue(t, typ, gomodel.ValCfg{Budget: 20})
		if rv, err := gomodel.Materialize(typ, &gv); err == nil {
			if v, err := gomodel.FoldModel(rv); err == nil {
				r := &renderer{t: t, route: "direct", perturb: true}
				r.render(v, &c.Probe2)
			}
		}
	}
	return c
}

// enumC14: the shape-mismatch matrix — every scalar event kind (and the wrong
// container kind) delivered where a container-typed value is expected, for five
// element types in five positions. The reference model decides which of them
// are mismatches (null is not).
func enumC14(emit func(c any) bool) {
	// deep documents abandoned at their deepest point, then Reset: the unfolder's
	// stacks start in inline arrays of 32 slots and move to the heap beyond that;
	// whatever Reset does with the slots a document left in use must work on both
	// sides of that boundary (depths around 16 = 2 entries per level, and 32/33)
	ifcT := gomodel.TypeDesc{Kind: "iface"}
	nT := gomodel.TypeDesc{Kind: "pool", Pool: "N"}
	sliceT := ifcT
	for i := 0; i < 70; i++ {
		e := sliceT
		sliceT = gomodel.TypeDesc{Kind: "slice", Elem: &e}
	}
	for _, depth := range []int{8, 15, 16, 17, 18, 20, 31, 32, 33, 34, 40, 70} {
		var arrs, objs, nexts []model.Ev
		for i := 0; i < depth; i++ {
			arrs = append(arrs, model.Ev{K: model.KArrStart, L: -1})
			objs = append(objs, model.Ev{K: model.KObjStart, L: -1}, model.Ev{K: model.KKey, S: []byte("k")})
			nexts = append(nexts, model.Ev{K: model.KObjStart, L: -1}, model.Ev{K: model.KKeyRef, S: []byte("next")})
		}
		for _, c := range []*C14Case{
			{Type: ifcT, Evs: arrs, Abandon: len(arrs), Kind: "deep_abandon"},
			{Type: ifcT, Evs: objs, Abandon: len(objs), Kind: "deep_abandon"},
			{Type: nT, Evs: nexts, Abandon: len(nexts), Kind: "deep_abandon"},
			{Type: sliceT, Evs: arrs, Abandon: len(arrs), Kind: "deep_abandon"},
			// ... and ended by a mismatch at the deepest point instead
			{Type: nT, Evs: append(append([]model.Ev{}, nexts...), model.Ev{K: model.KStr, S: []byte("x")}), Abandon: -1, Kind: "deep_mismatch"},
			{Type: sliceT, Evs: append(append([]model.Ev{}, arrs...), model.Ev{K: model.KObjStart, L: -1}), Abandon: -1, Kind: "deep_mismatch"},
		} {
			if c.Abandon == len(c.Evs) {
				// "abandoned": every event is delivered, the document is never closed
				c.Abandon = -1
			}
			if !emit(c) {
				return
			}
		}
	}
	for _, sc := range unfoldScenarios {
		if !emit(&C14Case{Type: gomodel.TypeDesc{Kind: "int"}, Abandon: -1, Kind: "scenario:" + sc}) {
			return
		}
	}
	sInt := gomodel.TypeDesc{Kind: "struct", Fields: []gomodel.FieldDesc{{Name: "A", Type: gomodel.TypeDesc{Kind: "int"}}}}
	elems := []gomodel.TypeDesc{
		sInt,
		{Kind: "slice", Elem: &gomodel.TypeDesc{Kind: "int"}},
		{Kind: "map", Elem: &gomodel.TypeDesc{Kind: "int"}},
		{Kind: "ptr", Elem: &sInt},
		{Kind: "slice", Elem: &sInt},
		{Kind: "map", Elem: &sInt},
	}
	// ... and where a scalar of every kind is expected (null, booleans, strings and
	// numbers of every event kind into every scalar target kind, as target, map
	// value, slice element, struct field and pointer target)
	for _, k := range gomodel.ScalarKinds {
		elems = append(elems, gomodel.TypeDesc{Kind: k})
	}
	var wrong []([]model.Ev)
	for _, k := range plainKinds {
		e := model.Ev{K: k, I: 1, U: 1, F: 0x3ff0000000000000, B: true, S: []byte("s")}
		if k == model.KF32 {
			e.F = 0x3f800000
		}
		wrong = append(wrong, []model.Ev{e})
	}
	wrong = append(wrong,
		[]model.Ev{{K: model.KArrStart, L: -1}, {K: model.KStr, S: []byte("x")}, {K: model.KArrEnd}},
		[]model.Ev{{K: model.KObjStart, L: 1}, {K: model.KKey, S: []byte("a")}, {K: model.KStr, S: []byte("x")}, {K: model.KObjEnd}},
		[]model.Ev{{K: model.KArrStart, L: 1}, {K: model.KObjStart, L: -1}, {K: model.KObjEnd}, {K: model.KArrEnd}},
	)
	for i := range elems {
		e := elems[i]
		for _, w := range wrong {
			shapes := []struct {
				td  gomodel.TypeDesc
				evs []model.Ev
			}{
				{e, w},
				{gomodel.TypeDesc{Kind: "map", Elem: &e}, append(append([]model.Ev{{K: model.KObjStart, L: -1}, {K: model.KKey, S: []byte("k")}}, w...), model.Ev{K: model.KObjEnd})},
				{gomodel.TypeDesc{Kind: "slice", Elem: &e}, append(append([]model.Ev{{K: model.KArrStart, L: -1}}, w...), model.Ev{K: model.KArrEnd})},
				{gomodel.TypeDesc{Kind: "struct", Fields: []gomodel.FieldDesc{{Name: "B", Type: gomodel.TypeDesc{Kind: "string"}}, {Name: "F", Type: e}}},
					append(append([]model.Ev{{K: model.KObjStart, L: -1}, {K: model.KKey, S: []byte("f")}}, w...), model.Ev{K: model.KKey, S: []byte("b")}, model.Ev{K: model.KStr, S: []byte("after")}, model.Ev{K: model.KObjEnd})},
				{gomodel.TypeDesc{Kind: "ptr", Elem: &e}, w},
			}
			for j := range shapes {
				if !emit(&C14Case{Type: shapes[j].td, Evs: shapes[j].evs, Abandon: -1, Kind: "mismatch_matrix"}) {
					return
				}
			}
		}
	}
}

func init() {
	register(&Property{
		ID:            "C14",
		Enum:          enumC14,
		Rule:          "(stream, target type) pairs: (i) drawn independently (mostly mismatching), (ii) a matching perturbed stream (C13 renderer) with one subtree replaced by another random value at a drawn position and depth (scalar<->array<->object, key where none is expected, wrong element kinds, typed containers), (iii) matching streams whose container start announces 2^16..2^63-1 elements that are not delivered; 1 in 4 targets already hold a generated value (non-nil slices with spare capacity, maps with entries, allocated pointers; safety oracles only); optionally abandoned after a drawn event index; 1 in 8 cases repeat the (abandoned or failing) document 1..1100 more times, each time after Reset + SetTarget, with the same outcome required; then Reset + SetTarget(new variable of the same type) + a matching perturbed document of a second value (members omitted), then Reset + SetTarget + a fixed probe document of a fixed type. Deterministic part: documents of depth 8..70 (nested arrays / objects into interface{}, the recursive struct N, a 70-level slice type) left open at their deepest point or ended there by a mismatch, then Reset; every scalar event kind and the wrong container kind where a struct, slice, map, pointer-to-struct, slice-of-struct, map-of-struct or a scalar of each of the 14 kinds is expected, as target, map value, slice element, struct field and pointer target. Oracle: no panic; TotalAlloc <= 256KiB + 512 B/event + 8 B/string byte; the target sits between sentinel words that must stay intact; a success must equal the reference assignment model on the same stream (compared when every number fits); after each Reset+SetTarget the result, outcome and stack depths equal a new unfolder's on the same document. non-trivial = an error at depth >= 1 or abandonment inside a nested container; distinct by case hash. The thorough tier repeats the search with the -race build (checkptr)",
		New:           func() any { return &C14Case{} },
		Draw:          drawC14,
		Check:         checkC14,
		AlwaysCurCase: true,
	})
}
