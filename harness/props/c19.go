package props

import (
	"bytes"
	"fmt"
	"io"
	"reflect"
	"sync"

	"github.com/elastic/go-structform/gotype"
	"pgregory.net/rapid"

	"verif/harness/gen"
	"verif/harness/gomodel"
	"verif/harness/model"
)

// C19 — independent instances can be used concurrently without interference.
// The check is only meaningful in a binary built with -race (both tiers use
// it): any race report ends the process with a distinctive exit status, which
// the driver attributes to the case left behind in $VERIF_CURCASE.

type C19Job struct {
	Item  int    `json:"item"`  // index into Items (gotype pipelines) or Streams (codec pipelines)
	Route string `json:"route"` // direct | json | ubjson | cborl | codec:<format>
	// Recycle: the goroutine keeps ONE unfolder for all its repetitions, created
	// without a target and recycled with Reset + SetTarget before every document
	Recycle bool `json:"recycle,omitempty"`
	// Entry > 0 (codec jobs): use entry point Entry-1 instead of the one chosen by
	// goroutine index (0 Parse, 1 NewBytesDecoder, 2 ParseReader, 3 Parser.Parse,
	// 4 NewDecoder over short reads, polled again after the end)
	Entry int `json:"entry,omitempty"`
}

type C19Case struct {
	Items []GoCase `json:"items"`
	// FoldItems: values of fold-side types (custom folders, inlined interfaces,
	// named containers) folded into encoders by "fold:<format>" jobs
	FoldItems []GoCase     `json:"fold_items,omitempty"`
	Streams   [][]model.Ev `json:"streams,omitempty"`
	Jobs      []C19Job     `json:"jobs"` // one per goroutine
	Repeat    int          `json:"repeat"`
}

type c19Result struct {
	v   model.V
	out string // outcome class + error text
	raw []byte
}

// c19Inst holds the long-lived instances of one goroutine.
type c19Inst struct{ u *gotype.Unfolder }

// c19Shared holds the documents that were encoded ONCE before the goroutines
// start: all goroutines of a program that use the same stream and format parse
// the very same byte slice (input is read-only for every parser entry point).
type c19Shared struct {
	data     map[string][]byte
	pristine map[string][]byte
}

func c19Run(c *C19Case, j C19Job, types []reflect.Type, vals []reflect.Value, inst *c19Inst, shared *c19Shared, g int) c19Result {
	if len(j.Route) > 6 && j.Route[:6] == "codec:" {
		cd := codecs[j.Route[6:]]
		evs := c.Streams[j.Item]
		// every goroutine encodes on its own instance ...
		own, eo := encodeStream(cd, EncOpts{EscapeHTML: true, IgnoreInvalidFloat: true}, evs)
		if eo.Panicked() || eo.Err != nil {
			return c19Result{out: eo.String()}
		}
		// ... and parses the SHARED copy through one of the entry points
		data := own
		if shared != nil {
			if d, ok := shared.data[fmt.Sprintf("%d/%s", j.Item, cd.Name)]; ok {
				data = d
			}
		}
		rec := &model.Recorder{}
		po := guard(func() error {
			entry := []int{0, 1, 4, 2, 4, 3, 4, 4}[g%8]
			if j.Entry > 0 {
				entry = j.Entry - 1
			}
			switch entry {
			case 4:
				// pull decoder over a reader with short reads; Next is polled
				// twice more after the end (a consumer waiting for more input)
				var chunks [][]byte
				for i := 0; i < len(data); i += 7 {
					chunks = append(chunks, data[i:min(i+7, len(data))])
				}
				dec := cd.NewDecoder(&chunkReader{chunks: chunks}, 16, rec)
				err := dec.Next()
				for i := 0; err == nil && i < 3; i++ {
					if err2 := dec.Next(); err2 != io.EOF {
						return fmt.Errorf("Next #%d after the value: %v", i+2, err2)
					}
				}
				return err
			case 1:
				dec := cd.NewBytesDecoder(data, rec)
				err := dec.Next()
				if err == nil {
					if err2 := dec.Next(); err2 != io.EOF {
						return fmt.Errorf("second Next: %v", err2)
					}
				}
				return err
			case 2:
				_, err := cd.ParseReader(bytes.NewReader(data), rec)
				return err
			case 3:
				return cd.NewParser(rec).(interface{ Parse([]byte) error }).Parse(data)
			}
			return cd.Parse(data, rec)
		})
		if po.Panicked() || po.Err != nil {
			return c19Result{out: po.String(), raw: data}
		}
		v, err := model.Tree(rec.Evs)
		if err != nil {
			return c19Result{out: "malformed: " + err.Error(), raw: data}
		}
		return c19Result{v: v, out: "ok", raw: data}
	}
	if len(j.Route) > 5 && j.Route[:5] == "skip:" {
		// a document whose members are mostly UNKNOWN to the target: the shared
		// stream's value (arbitrary nesting) sits twice under unknown names
		// between the two members the target knows
		route := j.Route[5:]
		evs := []model.Ev{{K: model.KObjStart, L: -1}, {K: model.KKey, S: []byte("a")}, {K: model.KInt, I: 7}, {K: model.KKey, S: []byte("skip1")}}
		evs = append(evs, c.Streams[j.Item]...)
		evs = append(evs, model.Ev{K: model.KKeyRef, S: []byte("z")}, model.Ev{K: model.KStr, S: []byte("end")}, model.Ev{K: model.KKey, S: []byte("skip2")})
		evs = append(evs, c.Streams[j.Item]...)
		evs = append(evs, model.Ev{K: model.KObjEnd})
		var target struct {
			A int
			Z string
			O int `struct:"skip2,omit"`
		}
		o := guard(func() error {
			u, err := gotype.NewUnfolder(&target)
			if err != nil {
				return err
			}
			if route == "direct" {
				_, err = model.Apply(evs, ensureExt(u))
				return err
			}
			data, eo := encodeStream(codecs[route], EncOpts{IgnoreInvalidFloat: true}, evs)
			if eo.Panicked() || eo.Err != nil {
				return fmt.Errorf("encode: %v", eo)
			}
			return codecs[route].Parse(data, u)
		})
		if o.Panicked() || o.Err != nil {
			return c19Result{out: "skip: " + o.String()}
		}
		return c19Result{v: model.Obj(model.Member{Key: []byte("a"), Val: model.Int(int64(target.A))}, model.Member{Key: []byte("z"), Val: model.Str([]byte(target.Z))}), out: "ok"}
	}
	if len(j.Route) > 5 && j.Route[:5] == "fold:" {
		cd := codecs[j.Route[5:]]
		_, rv, err := c.FoldItems[j.Item].build()
		if err != nil {
			return c19Result{out: "build: " + err.Error()}
		}
		var buf bytes.Buffer
		fo := foldTo(rv, cd.NewVisitor(&buf, EncOpts{IgnoreInvalidFloat: true}))
		if fo.Panicked() || fo.Err != nil {
			return c19Result{out: fo.String()}
		}
		v, derr := refDecodeOne(cd.Name, buf.Bytes())
		if derr != nil {
			return c19Result{out: "invalid document: " + derr.Error(), raw: buf.Bytes()}
		}
		return c19Result{v: v, out: "ok", raw: buf.Bytes()}
	}
	var target reflect.Value
	var stage string
	var o Outcome
	if inst != nil && j.Recycle {
		target = reflect.New(types[j.Item])
		o = guard(func() error {
			if inst.u == nil {
				var err error
				if inst.u, err = newUnfolder(nil, reflect.PointerTo(types[j.Item])); err != nil {
					return err
				}
			}
			inst.u.Reset()
			return inst.u.SetTarget(target.Interface())
		})
		stage = "SetTarget"
		if !o.Panicked() && o.Err == nil {
			stage, o = roundTripInto(inst.u, j.Route, vals[j.Item])
		} else if !o.Panicked() {
			stage = "NewUnfolder" // the same refusal a new unfolder reports
		}
	} else {
		target, stage, o = roundTrip(j.Route, types[j.Item], vals[j.Item])
	}
	if o.Panicked() || o.Err != nil {
		return c19Result{out: stage[:min(len(stage), 12)] + ": " + o.String()}
	}
	v, err := gomodel.FoldModel(target.Elem())
	if err != nil {
		return c19Result{out: "model: " + err.Error()}
	}
	return c19Result{v: v, out: "ok"}
}

func checkC19(ci any, info *CaseInfo) string {
	c := ci.(*C19Case)
	types := make([]reflect.Type, len(c.Items))
	vals := make([]reflect.Value, len(c.Items))
	for i := range c.Items {
		t, rv, err := c.Items[i].build()
		if err != nil {
			return err.Error()
		}
		types[i], vals[i] = t, rv
	}
	G := len(c.Jobs)
	info.Class(fmt.Sprintf("goroutines:%d", G))
	shared := map[string]int{}
	for _, j := range c.Jobs {
		shared[fmt.Sprintf("%d", j.Item)+j.Route[:min(5, len(j.Route))]]++
		info.Class("route:" + j.Route)
	}
	info.NonTrivial = false
	for _, n := range shared {
		if n >= 2 {
			info.NonTrivial = true // at least two goroutines share the first use of a type / stream
		}
	}
	rep := c.Repeat
	if rep <= 0 {
		rep = 1
	}
	inputs := &c19Shared{data: map[string][]byte{}, pristine: map[string][]byte{}}
	for _, j := range c.Jobs {
		if len(j.Route) > 6 && j.Route[:6] == "codec:" {
			cd := codecs[j.Route[6:]]
			key := fmt.Sprintf("%d/%s", j.Item, cd.Name)
			if _, ok := inputs.data[key]; !ok {
				d, eo := encodeStream(cd, EncOpts{EscapeHTML: true, IgnoreInvalidFloat: true}, c.Streams[j.Item])
				if !eo.Panicked() && eo.Err == nil {
					inputs.data[key] = d
					inputs.pristine[key] = append([]byte{}, d...)
				}
			}
		}
	}
	// concurrent run first: the first use of every (fresh) type happens under contention
	results := make([][]c19Result, G)
	var start, done sync.WaitGroup
	start.Add(1)
	for g := 0; g < G; g++ {
		done.Add(1)
		go func(g int) {
			defer done.Done()
			start.Wait()
			inst := &c19Inst{}
			for r := 0; r < rep; r++ {
				results[g] = append(results[g], c19Run(c, c.Jobs[g], types, vals, inst, inputs, g))
			}
		}(g)
	}
	start.Done()
	done.Wait()
	for k, d := range inputs.data {
		if !bytes.Equal(d, inputs.pristine[k]) {
			return fmt.Sprintf("a parser modified its input: document %s reads %q after the run, %q before", k, trunc(d), trunc(inputs.pristine[k]))
		}
	}
	// sequential reference
	for g := 0; g < G; g++ {
		ref := c19Run(c, c.Jobs[g], types, vals, nil, nil, 0)
		for r, got := range results[g] {
			if got.out != ref.out {
				return fmt.Sprintf("goroutine %d (job %+v), repetition %d: outcome %q under concurrency, %q when run alone", g, c.Jobs[g], r, got.out, ref.out)
			}
			if ref.out == "ok" {
				if d := model.Diff(ref.v, got.v, model.Rules{AllUnordered: true, AnyNaN: true}); d != "" {
					return fmt.Sprintf("goroutine %d (job %+v), repetition %d: result under concurrency differs from the result when run alone: %s", g, c.Jobs[g], r, d)
				}
			}
		}
	}
	return ""
}

func drawC19(t *rapid.T) any {
	c := &C19Case{Repeat: rapid.IntRange(1, 3).Draw(t, "repeat")}
	ni := rapid.IntRange(1, 3).Draw(t, "nitems")
	if rapid.Bool().Draw(t, "freshrec") {
		// first use of a FRESH self-referential type under contention: some
		// goroutines fold/unfold R itself, others *R, []R and a struct holding both
		name := gomodel.RecName(rapid.IntRange(0, len(gomodel.RecFamily)-1).Draw(t, "recidx"))
		r := gomodel.TypeDesc{Kind: "pool", Pool: name}
		shapes := []gomodel.TypeDesc{
			r,
			{Kind: "ptr", Elem: &r},
			{Kind: "slice", Elem: &r},
			{Kind: "struct", Fields: []gomodel.FieldDesc{{Name: "P", Type: gomodel.TypeDesc{Kind: "ptr", Elem: &r}}, {Name: "S", Type: gomodel.TypeDesc{Kind: "slice", Elem: &r}}, {Name: "N", Type: gomodel.TypeDesc{Kind: "int"}}}},
		}
		vcfg := gomodel.ValCfg{Budget: 25, ValidUTF8: true, Finite: true, NoBigUint: true}
		for i := range shapes {
			typ, err := gomodel.Build(&shapes[i])
			if err != nil {
				t.Fatalf("harness: %v", err)
			}
			c.Items = append(c.Items, GoCase{Type: shapes[i], Val: gomodel.DrawValue(t, typ, vcfg)})
		}
		ni = 0
	}
	if ni > 0 && rapid.IntRange(0, 2).Draw(t, "customstate") == 0 {
		// types unfolded by custom UnfoldStates (Expander types, the stateful
		// user unfolder) in several positions, used by several goroutines at
		// the same time: the library's adapters around user states are created
		// per value and must stay per instance
		base := gomodel.TypeDesc{Kind: "pool", Pool: rapid.SampledFrom([]string{"ExpPair", "ExpInt", "UState", "UProc"}).Draw(t, "cstype")}
		shapes := []gomodel.TypeDesc{
			{Kind: "slice", Elem: &base},
			{Kind: "map", Elem: &base},
			{Kind: "struct", Fields: []gomodel.FieldDesc{{Name: "A", Type: base}, {Name: "B", Type: gomodel.TypeDesc{Kind: "slice", Elem: &base}}, {Name: "N", Type: gomodel.TypeDesc{Kind: "string"}}}},
		}
		vcfg := gomodel.ValCfg{Budget: 25, ValidUTF8: true, Finite: true, NoBigUint: true}
		for i := range shapes {
			typ, err := gomodel.Build(&shapes[i])
			if err != nil {
				t.Fatalf("harness: %v", err)
			}
			c.Items = append(c.Items, GoCase{Type: shapes[i], Val: gomodel.DrawValue(t, typ, vcfg)})
		}
		ni = 0
	}
	for i := 0; i < ni; i++ {
		g := drawGoCase(t, gomodel.TypeCfg{Tags: true, Pool: true, InlineOnlyStruct: true, Recursive: true}, gomodel.ValCfg{Budget: 25, ValidUTF8: true, Finite: true, NoBigUint: true})
		typ, _, _ := g.build()
		if typ == nil || gomodel.MayRefuse(typ) != "" {
			g = &GoCase{Type: gomodel.TypeDesc{Kind: "pool", Pool: "N"}, Val: gomodel.GoVal{Elems: []gomodel.GoVal{{I: 1}, {Nil: true}}}}
		}
		c.Items = append(c.Items, *g)
	}
	ns := rapid.IntRange(1, 2).Draw(t, "nstreams")
	for i := 0; i < ns; i++ {
		evs, _ := gen.Stream(t, gen.StreamCfg{Ext: true, Refs: true, Budget: 30, Finite: true})
		c.Streams = append(c.Streams, evs)
	}
	nf := rapid.IntRange(0, 2).Draw(t, "nfold")
	for i := 0; i < nf; i++ {
		g := drawGoCase(t, gomodel.TypeCfg{Tags: true, Pool: true, FoldOnly: true, Arrays: true, TopStruct: true}, gomodel.ValCfg{Budget: 25, ValidUTF8: true, Finite: true, NoBigUint: true})
		c.FoldItems = append(c.FoldItems, *g)
	}
	maxG := 8
	if gen.TierThorough() {
		maxG = 16
	}
	G := rapid.IntRange(2, maxG).Draw(t, "G")
	for g := 0; g < G; g++ {
		if nf > 0 && rapid.IntRange(0, 3).Draw(t, "foldjob") == 0 {
			c.Jobs = append(c.Jobs, C19Job{Item: rapid.IntRange(0, nf-1).Draw(t, "fitem"), Route: "fold:" + rapid.SampledFrom(formatNames).Draw(t, "ffmt")})
			continue
		}
		if rapid.IntRange(0, 5).Draw(t, "skipjob") == 0 {
			c.Jobs = append(c.Jobs, C19Job{Item: rapid.IntRange(0, ns-1).Draw(t, "skitem"), Route: "skip:" + rapid.SampledFrom(routes).Draw(t, "skroute")})
			continue
		}
		if rapid.IntRange(0, 3).Draw(t, "codecjob") == 3 {
			c.Jobs = append(c.Jobs, C19Job{Item: rapid.IntRange(0, ns-1).Draw(t, "sitem"), Route: "codec:" + rapid.SampledFrom(formatNames).Draw(t, "cfmt")})
		} else {
			c.Jobs = append(c.Jobs, C19Job{Item: rapid.IntRange(0, len(c.Items)-1).Draw(t, "item"), Route: rapid.SampledFrom(routes).Draw(t, "route"), Recycle: rapid.Bool().Draw(t, "recycle")})
		}
	}
	return c
}

// enumC19: fixed programs that construct one overlap directly instead of waiting
// for the scheduler to sample it — per format, eight goroutines that ALL go through
// the same entry point over the same shared bytes, three times each: eight reader
// decoders reaching the end of their input and polling again at the same moment,
// eight one-shot parsers, eight byte decoders ...
func enumC19(emit func(c any) bool) {
	stream := []model.Ev{
		{K: model.KObjStart, L: -1}, {K: model.KKey, S: []byte("k")}, {K: model.KArrStart, L: 3}, {K: model.KInt, I: 1}, {K: model.KStr, S: []byte("abcdefghijklmnopqrstuvwxyz0123456789")}, {K: model.KNil}, {K: model.KArrEnd},
		{K: model.KKey, S: []byte("b")}, {K: model.KBytes, S: []byte{1, 2, 3, 4, 5, 6, 7, 8, 9, 10, 11, 12}}, {K: model.KKey, S: []byte("f")}, {K: model.KF64, F: 0x400921fb54442d18}, {K: model.KObjEnd},
	}
	for _, format := range formatNames {
		for entry := 0; entry <= 4; entry++ {
			c := &C19Case{Streams: [][]model.Ev{stream}, Repeat: 3}
			for g := 0; g < 8; g++ {
				c.Jobs = append(c.Jobs, C19Job{Item: 0, Route: "codec:" + format, Entry: entry + 1})
			}
			if !emit(c) {
				return
			}
		}
	}
}

func init() {
	register(&Property{
		ID:            "C19",
		Rule:          "programs of G goroutines (quick: 2..8, thorough: 2..16) released by a barrier, each running its own pipeline — Fold of a fold-side value (custom folders, inlined interfaces, named containers) into an encoder, Fold -> Unfold directly or through the json/ubjson/cborl encoder and parser, an unfold of a document whose members are mostly unknown to the target (the shared stream's value, skipped twice), or encoder -> parser over a shared event stream, where all goroutines parse the SAME byte slice (encoded once beforehand; entry points Parse, NewBytesDecoder, ParseReader, Parser.Parse, NewDecoder over short reads polled again after io.EOF, by goroutine index; the bytes must be unchanged afterwards) — 1..3 times on its OWN instances (half of the goroutines keep one unfolder, created without target and recycled with Reset + SetTarget before every document) over SHARED input values and SHARED freshly generated reflect.StructOf types (first use under contention) plus pool types incl. the self-referential ones; half of the programs take a FRESH member of a family of 144 self-referential generic types and let the goroutines use R, *R, []R and struct{P *R; S []R} at the same time (first use of a recursive type under contention); a third of the others use a type with a custom UnfoldState (Expander, stateful or processing user unfolder) as slice element, map value and struct field in all goroutines; the binary is built with -race (GORACE=halt_on_error): any race report, 'concurrent map' fatal error or crash is a violation; differential: every goroutine's outcome and value equal those of the same job run alone afterwards. Schedules are sampled by the Go scheduler (GOMAXPROCS 4, varied in the thorough tier), not enumerated; a deterministic part adds 15 fixed programs (format x entry point) in which eight goroutines all use the SAME entry point over the same shared bytes three times (e.g. eight reader decoders reaching the end and polling again together). non-trivial = at least two goroutines share an item (type or stream) and route; distinct by case hash",
		New:           func() any { return &C19Case{} },
		Draw:          drawC19,
		Enum:          enumC19,
		Check:         checkC19,
		AlwaysCurCase: true,
	})
}
