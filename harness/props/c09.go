package props

import (
	"fmt"

	structform "github.com/elastic/go-structform"
	"pgregory.net/rapid"

	"verif/harness/gen"
	"verif/harness/gomodel"
	"verif/harness/model"
)

// C09 — every producer of the library emits only well-formed event streams.

type C09Case struct {
	Kind   string    `json:"kind"` // parser | fold | adapter
	Format string    `json:"format,omitempty"`
	Doc    []byte    `json:"doc,omitempty"`
	Cuts   []int     `json:"cuts,omitempty"`
	Go     *GoCase   `json:"go,omitempty"`
	Ev     *model.Ev `json:"ev,omitempty"`
	Wrap   string    `json:"wrap,omitempty"` // adapter: ensure-ext | string-ref
}

// plainVisitor hides every optional interface of a recorder.
type plainVisitor struct{ structform.Visitor }

func checkC09(ci any, info *CaseInfo) string {
	c := ci.(*C09Case)
	info.Class("producer:" + c.Kind)
	switch c.Kind {
	case "parser":
		cd := codecs[c.Format]
		rec := &model.RefRecorder{}
		rec.Limit = 4*len(c.Doc) + 64 // see model.Recorder.Limit
		var o Outcome
		if len(c.Cuts) == 0 {
			o = guard(func() error { return cd.Parse(c.Doc, rec) })
		} else {
			o = guard(func() error {
				_, err := cd.ParseReader(&chunkReader{chunks: cloneChunks(gen.Split(c.Doc, c.Cuts))}, rec)
				return err
			})
		}
		info.Class("format:" + c.Format)
		if o.Panicked() {
			return fmt.Sprintf("%s parser panics on %x: %v", c.Format, trunc(c.Doc), o.Panic)
		}
		info.Class("parse:" + o.Class())
		info.NonTrivial = hasAnnouncement(rec.Evs)
		// events before an error must be a well-formed prefix; accepted input a complete stream
		if m := model.CheckContract(rec.Evs, o.Err == nil); m != "" {
			return fmt.Sprintf("%s parser (cuts %v) breaks the Visitor contract on %q (%x): %s; events: %v", c.Format, truncInts(c.Cuts), trunc(c.Doc), trunc(c.Doc), m, truncEvs(rec.Evs))
		}
	case "fold":
		typ, rv, err := c.Go.build()
		if err != nil {
			return err.Error()
		}
		typeClasses(typ, info, 0, map[string]bool{})
		rec := &model.Recorder{}
		o := foldTo(rv, rec)
		if o.Panicked() {
			return fmt.Sprintf("Fold panics for %s: %v\n%s", describeGo(c.Go, rv), o.Panic, o.Stack)
		}
		info.NonTrivial = typeHasActiveTag(typ, 0) || hasAnnouncement(rec.Evs)
		if m := model.CheckContract(rec.Evs, o.Err == nil); m != "" {
			return fmt.Sprintf("Fold breaks the Visitor contract for %s: %s; events: %v", describeGo(c.Go, rv), m, truncEvs(rec.Evs))
		}
	case "adapter":
		rec := &model.Recorder{}
		var ext structform.ExtVisitor
		if c.Wrap == "string-ref" {
			// a plain visitor wrapped by MakeStringRefVisitor (only the by-reference events apply)
			sv := structform.MakeStringRefVisitor(plainVisitor{rec})
			o := guard(func() error {
				if err := rec.OnObjectStart(1, structform.AnyType); err != nil {
					return err
				}
				if err := sv.OnKeyRef([]byte("k")); err != nil {
					return err
				}
				if err := sv.OnStringRef(c.Ev.S); err != nil {
					return err
				}
				return rec.OnObjectFinished()
			})
			if o.Panicked() || o.Err != nil {
				return fmt.Sprintf("MakeStringRefVisitor adapter fails: %v", o)
			}
			info.NonTrivial = true
			if m := model.CheckContract(rec.Evs, true); m != "" {
				return "MakeStringRefVisitor adapter breaks the contract: " + m
			}
			return ""
		}
		ext = structform.EnsureExtVisitor(plainVisitor{rec})
		o := guard(func() error { return model.ApplyOne(*c.Ev, ext) })
		if o.Panicked() || o.Err != nil {
			return fmt.Sprintf("EnsureExtVisitor adapter fails on %v: %v", *c.Ev, o)
		}
		info.NonTrivial = true
		info.Class("event:" + c.Ev.K)
		if m := model.CheckContract(rec.Evs, true); m != "" {
			return fmt.Sprintf("EnsureExtVisitor adapter breaks the Visitor contract for %v: %s; events: %v", *c.Ev, m, truncEvs(rec.Evs))
		}
		// and the expansion carries the same value
		exp, _ := model.Tree([]model.Ev{*c.Ev})
		got, err := model.Tree(rec.Evs)
		if err != nil {
			return fmt.Sprintf("EnsureExtVisitor adapter emits a malformed stream for %v: %v", *c.Ev, err)
		}
		if d := model.Diff(exp, got, model.Rules{}); d != "" {
			return fmt.Sprintf("EnsureExtVisitor adapter changes the value of %v: %s", *c.Ev, d)
		}
	default:
		return "harness: unknown producer kind " + c.Kind
	}
	return ""
}

func hasAnnouncement(evs []model.Ev) bool {
	for _, e := range evs {
		if (e.K == model.KArrStart || e.K == model.KObjStart) && (e.L >= 0 || e.T != 0) {
			return true
		}
	}
	return false
}

// drawExtEvent draws one extended event (typed array / typed map / bytes).
func drawExtEvent(t *rapid.T) model.Ev {
	evs, _ := gen.Stream(t, gen.StreamCfg{Ext: true, ExtOnly: true, Refs: false})
	return evs[0]
}

func init() {
	register(&Property{
		ID:   "C09",
		Enum: enumFoldPoolShapes(func(g *GoCase) any { return &C09Case{Kind: "fold", Go: g} }),
		Rule: "producers: the three parsers on valid own/foreign documents and on mutated ones (events before an error must still be a well-formed prefix) under generated chunkings; Fold over generated Go types (tags omit/omitempty/inline, pointers, interfaces, maps, slices, arrays, pool types with well-formed custom folders); EnsureExtVisitor/MakeStringRefVisitor over a plain visitor for generated extended events; deterministic part: every pool type with a custom folder (implemented by value or pointer receiver, registered; object-, array- and scalar-shaped; of struct, map, slice and primitive kind) as T, *T, []T, [2]T, map[string]T, []*T, struct field, inlined field and interface value, with fixed non-empty values; oracle = contract monitor (balance, key discipline, announced length == delivered count, element conformity to announced BaseType); non-trivial = the stream announces a length >= 0 or an element type, or the folded type carries tag options; distinct by case hash",
		New:  func() any { return &C09Case{} },
		Draw: func(t *rapid.T) any {
			switch w := rapid.IntRange(0, 9).Draw(t, "producer"); {
			case w < 4:
				c := &C09Case{Kind: "parser", Format: rapid.SampledFrom(formatNames).Draw(t, "format")}
				d := validDoc(t, c.Format, false)
				c.Doc = d.Bytes
				if rapid.IntRange(0, 4).Draw(t, "mut") == 4 {
					c.Doc = mutateBytes(t, c.Doc)
				}
				if c.Format == "cborl" && rapid.IntRange(0, 5).Draw(t, "unsup") == 5 {
					// well-formed CBOR with one item outside the subset: whatever the
					// parser does with it, what it emits must obey the contract
					c.Doc, _ = drawCBORUnsupported(t)
					d.Spans = nil
				}
				if rapid.Bool().Draw(t, "chunk") {
					c.Cuts = gen.Cuts(t, len(c.Doc), d.Spans)
				}
				return c
			case w < 8:
				return &C09Case{Kind: "fold", Go: drawGoCase(t, gomodel.TypeCfg{Tags: true, Pool: true, FoldOnly: true, Arrays: true, Recursive: !genExcludedRecursive()}, gomodel.ValCfg{})}
			default:
				ev := drawExtEvent(t)
				c := &C09Case{Kind: "adapter", Ev: &ev, Wrap: "ensure-ext"}
				if rapid.IntRange(0, 5).Draw(t, "wrap") == 5 {
					c.Wrap = "string-ref"
					c.Ev = &model.Ev{K: model.KStrRef, S: gen.Str(t, false, "srs")}
				}
				return c
			}
		},
		Check:         checkC09,
		AlwaysCurCase: true,
	})
}
