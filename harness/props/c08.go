package props

import (
	"bytes"
	"fmt"

	"pgregory.net/rapid"

	"verif/harness/gen"
	"verif/harness/model"
	"verif/harness/ref"
)

// C08 — streaming transcoding between any two formats preserves the value.

type C08Case struct {
	Src   string   `json:"src"`
	Dst   string   `json:"dst"`
	Docs  [][]byte `json:"docs"`          // k valid source documents (containers when k > 1)
	Sep   bool     `json:"sep,omitempty"` // JSON source: a space between documents
	Cuts  []int    `json:"cuts,omitempty"`
	Opts  EncOpts  `json:"opts"`
	Spans [][2]int `json:"spans,omitempty"`
}

func (c *C08Case) source() []byte {
	var out []byte
	for i, d := range c.Docs {
		if i > 0 && c.Sep {
			out = append(out, ' ')
		}
		out = append(out, d...)
	}
	return out
}

// refDecodeAll decodes a concatenated stream of documents with the reference
// decoder of the format.
func refDecodeAll(format string, b []byte) ([]model.V, error) {
	var out []model.V
	switch format {
	case "json":
		vals, _, err := ref.DecodeJSONStream(b)
		return vals, err
	case "cborl":
		for len(b) > 0 {
			v, n, st, _ := ref.DecodeCBOR(b)
			if st != ref.OK {
				return out, fmt.Errorf("reference CBOR decoder: %v after %d values", st, len(out))
			}
			out = append(out, v)
			b = b[n:]
		}
	case "ubjson":
		for len(b) > 0 {
			v, n, st, _ := ref.DecodeUBJSON(b)
			if st != ref.OK {
				return out, fmt.Errorf("reference UBJSON decoder: %v after %d values", st, len(out))
			}
			out = append(out, v)
			b = b[n:]
		}
	}
	return out, nil
}

func hasNonFiniteV(v model.V) bool {
	switch v.K {
	case model.VFloat:
		return isNonFiniteV(v)
	case model.VArr:
		for _, x := range v.A {
			if hasNonFiniteV(x) {
				return true
			}
		}
	case model.VObj:
		for _, m := range v.O {
			if hasNonFiniteV(m.Val) {
				return true
			}
		}
	}
	return false
}

// transcode connects the src parser directly to the dst encoder.
func transcode(src, dst *codec, o EncOpts, data []byte, cuts []int) ([]byte, Outcome) {
	var buf bytes.Buffer
	vis := dst.NewVisitor(&buf, o)
	var out Outcome
	if cuts == nil {
		out = guard(func() error { return src.Parse(data, vis) })
	} else {
		out = guard(func() error {
			_, err := src.ParseReader(&chunkReader{chunks: cloneChunks(gen.Split(data, cuts))}, vis)
			return err
		})
	}
	return buf.Bytes(), out
}

func checkC08(ci any, info *CaseInfo) string {
	c := ci.(*C08Case)
	src, dst := codecs[c.Src], codecs[c.Dst]
	if src == nil || dst == nil {
		return "harness: unknown format"
	}
	data := c.source()
	k := len(c.Docs)
	// expected values: reference decode of the source
	exp, err := refDecodeAll(c.Src, data)
	if err != nil || len(exp) != k {
		return fmt.Sprintf("harness: source %q is not %d valid %s documents: %v (%d decoded)", trunc(data), k, c.Src, err, len(exp))
	}
	splits := gen.CutsSplitToken(c.Cuts, pairsToSpans(c.Spans))
	info.NonTrivial = c.Src != c.Dst || splits || k > 1
	info.Class("pair:" + c.Src + "->" + c.Dst)
	info.Class(fmt.Sprintf("k=%d", k))
	if splits {
		info.Class("cut_inside_token")
	}
	nonfinite := false
	for _, v := range exp {
		if hasNonFiniteV(v) {
			nonfinite = true
		}
	}
	rules := rulesFor(c.Dst, c.Opts)
	if c.Src == "json" || c.Dst == "json" {
		rules.JSONFloat = c.Dst == "json"
	}
	desc := fmt.Sprintf("%s->%s of %q (%x)", c.Src, c.Dst, trunc(data), trunc(data))

	// whole-buffer transcoding
	whole, wo := transcode(src, dst, c.Opts, data, nil)
	if wo.Panicked() {
		return fmt.Sprintf("%s: panic: %v\n%s", desc, wo.Panic, wo.Stack)
	}
	if wo.Err != nil {
		if c.Dst == "json" && nonfinite && !c.Opts.IgnoreInvalidFloat {
			info.Class("json_refused_nonfinite")
			return ""
		}
		return fmt.Sprintf("%s: transcoding a valid document fails: %v", desc, wo.Err)
	}
	// (a) semantic: reference decoder and the library's own parser on the target
	got, err := refDecodeAll(c.Dst, whole)
	if err != nil || len(got) != k {
		return fmt.Sprintf("%s: the target %q (%x) is not %d valid %s documents for the reference decoder: %v (%d decoded)", desc, trunc(whole), trunc(whole), k, c.Dst, err, len(got))
	}
	for i := range exp {
		if d := model.Diff(exp[i], got[i], rules); d != "" {
			return fmt.Sprintf("%s: document #%d changed its value (reference decoder on target %q / %x): %s", desc, i+1, trunc(whole), trunc(whole), d)
		}
	}
	rec := &model.Recorder{}
	po := guard(func() error { return dst.Parse(whole, rec) })
	if po.Panicked() || po.Err != nil {
		return fmt.Sprintf("%s: the library's %s parser fails on the target %q (%x): %v", desc, c.Dst, trunc(whole), trunc(whole), po)
	}
	own, err := model.Trees(rec.Evs)
	if err != nil || len(own) != k {
		return fmt.Sprintf("%s: the library's %s parser reads %d values (%v) from the target, expected %d", desc, c.Dst, len(own), err, k)
	}
	// own-parser view of the target: UBJSON delivers decimals as strings etc. — compare to the reference view of the same bytes
	ownRules := model.Rules{}
	if c.Dst == "json" {
		ownRules = model.Rules{JSONFloat: true}
	}
	for i := range got {
		if d := model.Diff(got[i], own[i], ownRules); d != "" {
			return fmt.Sprintf("%s: the library's %s parser and the reference decoder disagree on target document #%d %q: %s", desc, c.Dst, i+1, trunc(whole), d)
		}
	}
	// (b) differential: record, then replay into a fresh encoder
	rec2 := &model.Recorder{}
	ro := guard(func() error { return src.Parse(data, rec2) })
	if ro.Panicked() || ro.Err != nil {
		return fmt.Sprintf("%s: parsing the source into a recorder fails: %v", desc, ro)
	}
	replayed, eo := encodeStream(dst, c.Opts, rec2.Evs)
	if eo.Panicked() || eo.Err != nil {
		return fmt.Sprintf("%s: replaying the recorded events into a fresh %s encoder fails although streaming worked: %v", desc, c.Dst, eo)
	}
	if bytes.Equal(replayed, whole) {
		info.Class("bytes_identical_to_record_replay")
	} else {
		info.Class("bytes_differ_from_record_replay")
		rgot, err := refDecodeAll(c.Dst, replayed)
		if err != nil || len(rgot) != k {
			return fmt.Sprintf("%s: record-and-replay output %x is not valid: %v", desc, trunc(replayed), err)
		}
		for i := range rgot {
			if d := model.Diff(rgot[i], got[i], model.Rules{}); d != "" {
				return fmt.Sprintf("%s: streaming and record-and-replay give different values for document #%d: %s", desc, i+1, d)
			}
		}
	}
	// (c) chunked source gives the same target value
	if len(c.Cuts) > 0 {
		chunked, co := transcode(src, dst, c.Opts, data, c.Cuts)
		if co.Panicked() || co.Err != nil {
			return fmt.Sprintf("%s: with the source chunked at %v transcoding fails: %v", desc, truncInts(c.Cuts), co)
		}
		if !bytes.Equal(chunked, whole) {
			cgot, err := refDecodeAll(c.Dst, chunked)
			if err != nil || len(cgot) != k {
				return fmt.Sprintf("%s: with the source chunked at %v the target %x is not valid: %v", desc, truncInts(c.Cuts), trunc(chunked), err)
			}
			for i := range cgot {
				if d := model.Diff(got[i], cgot[i], model.Rules{}); d != "" {
					return fmt.Sprintf("%s: the target value depends on the source chunking %v: document #%d: %s", desc, truncInts(c.Cuts), i+1, d)
				}
			}
		}
	}
	return ""
}

func drawC08(t *rapid.T) any {
	c := &C08Case{
		Src: rapid.SampledFrom(formatNames).Draw(t, "src"),
		Dst: rapid.SampledFrom(formatNames).Draw(t, "dst"),
	}
	if c.Dst == "json" {
		c.Opts = drawOpts(t)
	}
	k := 1
	if rapid.IntRange(0, 3).Draw(t, "multi") == 3 {
		k = rapid.IntRange(2, 4).Draw(t, "k")
	}
	c.Sep = c.Src == "json" && rapid.Bool().Draw(t, "sep")
	var spans []ref.Span
	off := 0
	for i := 0; i < k; i++ {
		d := validDoc(t, c.Src, k > 1)
		if i > 0 && c.Sep {
			off++
		}
		for _, s := range d.Spans {
			spans = append(spans, ref.Span{Start: s.Start + off, End: s.End + off})
		}
		off += len(d.Bytes)
		c.Docs = append(c.Docs, d.Bytes)
	}
	c.Spans = spansToPairs(spans)
	if rapid.IntRange(0, 2).Draw(t, "chunk") > 0 {
		c.Cuts = gen.Cuts(t, off, spans)
	}
	return c
}

func init() {
	register(&Property{
		ID:    "C08",
		Rule:  "source documents from the foreign encoders and the library's encoders x 9 (src,dst) pairs x source chunkings x stream length k in 1..4 (k>1: container documents; JSON with or without separating space) x JSON encoder options; oracle = (a) reference decoder and library parser on the target both read k values equal to the reference value of the source under the target's representation rules, (b) streaming equals record-and-replay in value, (c) the target value is the same for every source chunking; non-trivial = src != dst, or a cut inside a token, or k > 1; distinct by case hash",
		New:   func() any { return &C08Case{} },
		Draw:  drawC08,
		Check: checkC08,
	})
}
