package props

import (
	"bytes"
	"fmt"
	"io"
	"runtime"
	"syscall"

	"pgregory.net/rapid"

	"verif/harness/gen"
	"verif/harness/model"
)

// C03 — arbitrary bytes: no panic, no hang, bounded memory; truncation is an
// error at every end-aware entry point.

type C03Case struct {
	Format  string `json:"format"`
	Data    []byte `json:"data"`
	Cuts    []int  `json:"cuts,omitempty"`
	Entry   string `json:"entry"` // parse | parsestring | parsereader | write | bytesdecoder | decoder
	BufSize int    `json:"bufsize,omitempty"`
	EOFData bool   `json:"eof_with_data,omitempty"`
	// ZeroReads > 0 (reader entry points): one Read in ZeroReads answers (0, nil) first
	ZeroReads int    `json:"zero_reads,omitempty"`
	Kind      string `json:"kind,omitempty"`
	// Scale: the case is a SCALING probe — the document is built from (format,
	// family, n) at sizes n and 4n and fed in tiny pieces (Entry: write1 |
	// reader3 | decoder3); Data is unused
	Scale *C03Scale `json:"scale,omitempty"`
	// Again: the SAME parser or decoder is used once more after the first input
	// ended (with whatever outcome): a parser gets these bytes through the same
	// method, a pull decoder is polled three more times. Only "returns without
	// panic" is required of that second use.
	Again *C03Again `json:"again,omitempty"`
}

type C03Again struct {
	Data []byte `json:"data"`
	// Empty: an empty input is handed to the same method in between
	Empty bool `json:"empty,omitempty"`
}

type C03Scale struct {
	Family string `json:"family"`
	N      int    `json:"n"`
}

// scaleFamilies: valid documents of about n bytes whose size is made of ONE
// repeated construct (what a per-chunk rescan would be proportional to).
var scaleFamilies = map[string][]string{
	"json":   {"backslashes", "key_backslashes", "u_escapes", "plain_string", "fraction_digits", "whitespace", "nesting", "members", "invalid_utf8"},
	"ubjson": {"string", "noops", "nesting", "members", "hnum", "key"},
	"cborl":  {"text", "bytes", "nesting", "indef_members", "members", "key"},
}

func scaleDoc(format, family string, n int) []byte {
	rep := func(s string, k int) []byte { return bytes.Repeat([]byte(s), k) }
	cat := func(parts ...[]byte) []byte { return bytes.Join(parts, nil) }
	be32 := func(v int) []byte { return []byte{byte(v >> 24), byte(v >> 16), byte(v >> 8), byte(v)} }
	switch format + "/" + family {
	case "json/backslashes":
		return cat([]byte(`"`), rep(`\\`, n/2), []byte(`"`))
	case "json/key_backslashes":
		return cat([]byte(`{"`), rep(`\\`, n/2), []byte(`":1}`))
	case "json/u_escapes":
		return cat([]byte(`"`), rep(`\u0041`, n/6), []byte(`"`))
	case "json/plain_string":
		return cat([]byte(`"`), rep("a", n), []byte(`"`))
	case "json/fraction_digits":
		return cat([]byte("[0."), rep("1", n), []byte("]"))
	case "json/whitespace":
		return cat([]byte("["), rep(" ", n), []byte("1]"))
	case "json/nesting":
		return cat(rep("[", n/2), rep("]", n/2))
	case "json/members":
		return cat([]byte("[1"), rep(",1", n/2), []byte("]"))
	case "json/invalid_utf8":
		return cat([]byte(`"`), rep("\xff", n), []byte(`"`))
	case "ubjson/string":
		return cat([]byte("Sl"), be32(n), rep("a", n))
	case "ubjson/noops":
		return cat(rep("N", n), []byte("Z"))
	case "ubjson/nesting":
		return cat(rep("[", n/2), rep("]", n/2))
	case "ubjson/members":
		return cat([]byte("["), rep("i\x01", n/2), []byte("]"))
	case "ubjson/hnum":
		return cat([]byte("Hl"), be32(n), rep("1", n))
	case "ubjson/key":
		return cat([]byte("{l"), be32(n), rep("k", n), []byte("Z}"))
	case "cborl/text":
		return cat([]byte{0x7a}, be32(n), rep("a", n))
	case "cborl/bytes":
		return cat([]byte{0x5a}, be32(n), rep("a", n))
	case "cborl/nesting":
		return cat(rep("\x81", n), []byte{0x01})
	case "cborl/indef_members":
		return cat([]byte{0x9f}, rep("\x01", n), []byte{0xff})
	case "cborl/members":
		return cat([]byte{0x9a}, be32(n), rep("\x01", n))
	case "cborl/key":
		return cat([]byte{0xa1, 0x7a}, be32(n), rep("k", n), []byte{0x01})
	}
	return nil
}

type smallReader struct {
	data []byte
	n    int
}

func (r *smallReader) Read(p []byte) (int, error) {
	if len(r.data) == 0 {
		return 0, io.EOF
	}
	k := min(r.n, len(r.data), len(p))
	copy(p, r.data[:k])
	r.data = r.data[k:]
	return k, nil
}

func cpuSeconds() float64 {
	var ru syscall.Rusage
	if err := syscall.Getrusage(syscall.RUSAGE_SELF, &ru); err != nil {
		return 0
	}
	return float64(ru.Utime.Sec+ru.Stime.Sec) + float64(ru.Utime.Usec+ru.Stime.Usec)/1e6
}

// checkC03Scale: time proportional to the input length. The same construct at
// sizes n and 4n, delivered in tiny pieces; the measure is the CPU time of this
// process (not the wall clock: a busy machine does not count). A violation needs
// BOTH more than one CPU second for the larger input (linear code needs
// milliseconds) and more than 8 times the CPU time of the smaller one
// (quadratic: 16).
func checkC03Scale(c *C03Case, info *CaseInfo) string {
	cd := codecs[c.Format]
	info.Class("scaling:" + c.Scale.Family)
	info.NonTrivial = true
	run := func(n int) (float64, Outcome, int) {
		doc := scaleDoc(c.Format, c.Scale.Family, n)
		if doc == nil {
			return 0, Outcome{Err: fmt.Errorf("harness: unknown family")}, 0
		}
		cnt := &model.Counter{}
		runtime.GC()
		t0 := cpuSeconds()
		o := guard(func() error {
			switch c.Entry {
			case "reader3":
				_, err := cd.ParseReader(&smallReader{data: doc, n: 3}, cnt)
				return err
			case "decoder3":
				return cd.NewDecoder(&smallReader{data: doc, n: 1 << 20}, 3, cnt).Next()
			}
			p := cd.NewParser(cnt)
			for i := range doc {
				if _, err := p.Write(doc[i : i+1]); err != nil {
					return err
				}
			}
			return nil
		})
		return cpuSeconds() - t0, o, len(doc)
	}
	t1, o1, l1 := run(c.Scale.N)
	t4, o4, l4 := run(4 * c.Scale.N)
	if o1.Panicked() || o4.Panicked() {
		return fmt.Sprintf("%s %s/%s panics: %v / %v", c.Format, c.Scale.Family, c.Entry, o1, o4)
	}
	if o1.Class() != o4.Class() {
		return fmt.Sprintf("%s %s/%s: %d bytes end with %v, %d bytes with %v", c.Format, c.Scale.Family, c.Entry, l1, o1, l4, o4)
	}
	if t4 > 1.0 && t4 > 8*max(t1, 0.001) {
		return fmt.Sprintf("%s parser, %s fed through %s: %d bytes take %.3fs of CPU, %d bytes %.3fs (x%.1f for 4 times the input): time is not proportional to the input length", c.Format, c.Scale.Family, c.Entry, l1, t1, l4, t4, t4/max(t1, 0.001))
	}
	return ""
}

var c03Entries = []string{"parse", "parsestring", "parsereader", "write", "bytesdecoder", "decoder"}

// prepareEntry builds (outside the measured region) a closure that feeds the
// data to the named entry point. The closure returns the final error and a
// description of a broken loop contract ("" = fine). endAware tells whether the
// entry point knows where the input ends.
func prepareEntry(cd *codec, c *C03Case, vis model.VisitorIface) (run func() (error, string), endAware bool) {
	chunks := cloneChunks(gen.Split(c.Data, c.Cuts))
	data := append([]byte{}, c.Data...)
	switch c.Entry {
	case "parse":
		return func() (error, string) { return cd.Parse(data, vis), "" }, true
	case "parsestring":
		s := string(c.Data)
		keep := string(append([]byte{}, c.Data...))
		return func() (error, string) {
			err := cd.ParseString(s, vis)
			if s != keep {
				return err, "ParseString modified the bytes of its argument"
			}
			return err, ""
		}, true
	case "parsereader":
		rd := &chunkReader{chunks: chunks, eofWithData: c.EOFData, zeroEvery: c.ZeroReads}
		return func() (error, string) {
			_, err := cd.ParseReader(rd, vis)
			return err, ""
		}, true
	case "write":
		return func() (error, string) {
			p := cd.NewParser(vis)
			for _, ch := range chunks {
				if _, err := p.Write(ch); err != nil {
					return err, ""
				}
			}
			return nil, ""
		}, false
	case "bytesdecoder", "decoder":
		bs := c.BufSize
		if bs <= 0 {
			bs = 64
		}
		rd := &chunkReader{chunks: chunks, eofWithData: c.EOFData, zeroEvery: c.ZeroReads}
		limit := len(c.Data) + 2
		return func() (error, string) {
			var dec pullDecoder
			if c.Entry == "bytesdecoder" {
				dec = cd.NewBytesDecoder(data, vis)
			} else {
				dec = cd.NewDecoder(rd, bs, vis)
			}
			for i := 0; ; i++ {
				if i > limit {
					return nil, fmt.Sprintf("the Next loop did not end within len(input)+2 = %d calls", limit)
				}
				if err := dec.Next(); err != nil {
					return err, ""
				}
			}
		}, true
	}
	return func() (error, string) { return fmt.Errorf("harness: unknown entry %q", c.Entry), "" }, false
}

func checkC03(ci any, info *CaseInfo) string {
	c := ci.(*C03Case)
	cd := codecs[c.Format]
	if cd == nil {
		return "harness: unknown format"
	}
	if c.Scale != nil {
		return checkC03Scale(c, info)
	}
	// work bound: every format needs at least one input byte per two events
	// (a container header yields start+finish); the visitor refuses further
	// events beyond a generous multiple, which also keeps amplifying inputs
	// from running for minutes
	evLimit := 4*len(c.Data) + 64
	cnt := &model.Counter{Limit: evLimit}
	var (
		broken   string
		finalErr error
	)
	run, endAware := prepareEntry(cd, c, cnt)
	o := guardAlloc(func() error {
		finalErr, broken = run()
		return finalErr
	})
	info.NonTrivial = cnt.Events >= 1 || len(c.Data) >= 2
	info.Class("format:" + c.Format)
	info.Class("entry:" + c.Entry)
	info.Class("kind:" + c.Kind)
	info.Class("outcome:" + o.Class())
	desc := fmt.Sprintf("%s %s on %q (%x), cuts %v", c.Format, c.Entry, trunc(c.Data), trunc(c.Data), truncInts(c.Cuts))
	if o.Panicked() {
		return fmt.Sprintf("%s: panic: %v\n%s", desc, o.Panic, o.Stack)
	}
	if cnt.Events > evLimit {
		info.Class("event_amplification")
		if c.Format == "ubjson" && hasZeroSizedTypedHeader(c.Data) && gen.Excluded("ubjson.zero_payload_amplification") {
			info.Class("excluded:ubjson.zero_payload_amplification")
			return ""
		}
		return fmt.Sprintf("%s: more than %d events were delivered for %d input bytes: work out of proportion to the input", desc, evLimit, len(c.Data))
	}
	if broken != "" {
		return fmt.Sprintf("%s: %s", desc, broken)
	}
	// memory: linear in the input with generous constants
	bound := uint64(64<<10) + uint64(c.BufSize) + 64*uint64(len(c.Data))
	if o.AllocB > bound {
		return fmt.Sprintf("%s: allocated %d bytes for %d input bytes (bound %d): allocation out of proportion to the input", desc, o.AllocB, len(c.Data), bound)
	}
	if c.Again != nil {
		if msg := c03SecondUse(cd, c, info); msg != "" {
			return fmt.Sprintf("%s: %s", desc, msg)
		}
	}
	// truncation
	if endAware && needsMoreInput(c.Format, c.Data) {
		info.Class("truncated_input")
		if finalErr == nil {
			return fmt.Sprintf("%s: the input ends in the middle of a value but the call reports success", desc)
		}
		if finalErr == io.EOF {
			return fmt.Sprintf("%s: the input ends in the middle of a value but the decoder reports a clean io.EOF", desc)
		}
	}
	return ""
}

// c03SecondUse: an instance that has been through c.Data (whatever the outcome)
// is used again. A hang is caught by the watchdog, a panic is reported here.
func c03SecondUse(cd *codec, c *C03Case, info *CaseInfo) string {
	type methods interface {
		Parse([]byte) error
		ParseString(string) error
		Write([]byte) (int, error)
	}
	cnt := &model.Counter{Limit: 4*(len(c.Data)+len(c.Again.Data)) + 128}
	data := append([]byte{}, c.Data...)
	again := append([]byte{}, c.Again.Data...)
	chunks := cloneChunks(gen.Split(c.Data, c.Cuts))
	var run func()
	switch c.Entry {
	case "parse", "parsestring", "write":
		p, ok := cd.NewParser(cnt).(methods)
		if !ok {
			return "harness: parser lacks Parse/ParseString/Write"
		}
		run = func() {
			var first error
			switch c.Entry {
			case "parse":
				first = p.Parse(data)
				if c.Again.Empty {
					_ = p.Parse(nil)
				}
				_ = p.Parse(again)
			case "parsestring":
				first = p.ParseString(string(data))
				if c.Again.Empty {
					_ = p.ParseString("")
				}
				_ = p.ParseString(string(again))
			default:
				for _, ch := range chunks {
					if _, first = p.Write(ch); first != nil {
						break
					}
				}
				if c.Again.Empty {
					_, _ = p.Write(nil)
				}
				_, _ = p.Write(again)
			}
			if first != nil {
				info.Class("second_use:after_error")
			} else {
				info.Class("second_use:after_success")
			}
		}
	case "bytesdecoder", "decoder":
		bs := c.BufSize
		if bs <= 0 {
			bs = 64
		}
		var dec pullDecoder
		if c.Entry == "bytesdecoder" {
			dec = cd.NewBytesDecoder(data, cnt)
		} else {
			dec = cd.NewDecoder(&chunkReader{chunks: chunks, eofWithData: c.EOFData, zeroEvery: c.ZeroReads}, bs, cnt)
		}
		run = func() {
			var first error
			for i := 0; i <= len(data)+2 && first == nil; i++ {
				first = dec.Next()
			}
			for i := 0; i < 3; i++ {
				_ = dec.Next()
			}
			if first != nil && first != io.EOF {
				info.Class("second_use:after_error")
			} else {
				info.Class("second_use:after_success")
			}
		}
	default:
		return ""
	}
	o := guardAlloc(func() error { run(); return nil })
	if o.Panicked() {
		return fmt.Sprintf("second use of the same instance (again=%q): panic: %v\n%s", trunc(again), o.Panic, o.Stack)
	}
	return ""
}

func truncInts(a []int) []int {
	if len(a) > 20 {
		return a[:20]
	}
	return a
}

var c03Hostile = map[string][]string{
	"cborl": {
		"\xc0", "\xc0\x00", "\xf9", "\xf9\x3c\x00", "\x1c", "\x1d", "\x1e", "\x1f", "\x3c", "\x5c", "\x7c", "\x9c", "\xbc", "\xfc", "\xfd", "\xfe", "\xff",
		"\x7b\xff\xff\xff\xff\xff\xff\xff\xff", "\x5b\x80\x00\x00\x00\x00\x00\x00\x00", "\x9b\xff\xff\xff\xff\xff\xff\xff\xff", "\xbb\x80\x00\x00\x00\x00\x00\x00\x00",
		"\x9a\xff\xff\xff\xff", "\x7a\x7f\xff\xff\xff", "\x82\x01", "\x9f", "\xbf\x61", "\xa1\x60", "\x81\x81\x81\x81\x81\x81", "\x7f\x61\x61\xff", "\xa1\x01\x01", "\x9f\xff\xff",
	},
	"ubjson": {
		"[#S", "[#S\x01", "[#", "[$", "[$i", "[$i#", "[$i#i", "[$N#i\x03", "[$N#i\x03\x00", "{#S", "{$", "SS", "Si\xff", "SL\xff\xff\xff\xff\xff\xff\xff\xff", "SL\x7f\xff\xff\xff\xff\xff\xff\xff",
		"[#L\x7f\xff\xff\xff\xff\xff\xff\xff", "[$Z#l\x7f\xff\xff\xff", "[$Z#I\x7f\xff", "[i\x01", "{i\x01a", "[[[[[[[[", "{i\x01a{i\x01a{i\x01a", "X", "]", "}", "N", "NNN", "H", "HS", "C", "[$[#i\x02", "[${#i\x01i\x01a", "[$]#i\x01",
		"{$i#i\x01", "[#i\x01", "[#i\x00", "[$T#U\xff", "{#i\x01i\x01aN",
	},
	"json": {
		`"\u12"`, `"\ud800"`, `"\ud800\u`, `"\ud800\u12`, `"\ud800\udc`, `"\`, `"\u`, `"\uZZZZ"`, `"\x"`, "\"\n\"", "\"\\n\xc3\xa9\"", "\"\\n\xc3", `[`, `{`, `{"a"`, `{"a":`, `[1,`, `nul`, `tru`, `fals`, `-`, `+`, `.`, `1e`, `--1`, `1.2.3`,
		`[[[[[[[[[[[[[[[[[[[[[[[[[[[[[[[[[[[[[[[[`, `]`, `}`, `,`, `:`, `{"a":1,}`, `[1 2]`, "\xff", "\xef\xbb\xbf[]", `"` + "\x00" + `"`, `99999999999999999999999999`, `-9223372036854775809`, `1e999`,
	},
}

// every class of IEEE 754 bit pattern (sign x {zero, smallest, middle, largest
// finite, all-ones exponent} x {zero, one, top-bit, all-ones mantissa}) in every
// float width of the binary formats, bare and as array element: conversion code
// meets zeros of both signs, subnormals, infinities and NaNs
func init() {
	pattern := func(expBits, manBits uint, sign, ec, mc int) uint64 {
		expMax := uint64(1)<<expBits - 1
		exp := []uint64{0, 1, expMax / 2, expMax - 1, expMax}[ec]
		manMax := uint64(1)<<manBits - 1
		man := []uint64{0, 1, uint64(1) << (manBits - 1), manMax}[mc]
		return uint64(sign)<<(expBits+manBits) | exp<<manBits | man
	}
	be := func(v uint64, n int) string {
		b := make([]byte, n)
		for i := n - 1; i >= 0; i-- {
			b[i] = byte(v)
			v >>= 8
		}
		return string(b)
	}
	for sign := 0; sign < 2; sign++ {
		for ec := 0; ec < 5; ec++ {
			for mc := 0; mc < 4; mc++ {
				h, f, d := be(pattern(5, 10, sign, ec, mc), 2), be(pattern(8, 23, sign, ec, mc), 4), be(pattern(11, 52, sign, ec, mc), 8)
				c03Hostile["cborl"] = append(c03Hostile["cborl"], "\xf9"+h, "\x81\xf9"+h, "\xfa"+f, "\x81\xfa"+f, "\xfb"+d, "\x9f\xfb"+d+"\xff")
				c03Hostile["ubjson"] = append(c03Hostile["ubjson"], "d"+f, "[d"+f+"]", "D"+d, "[$D#i\x01"+d, "[$d#i\x02"+f+f)
			}
		}
	}
}

// hostileHeaders builds the matrix of container/string headers whose announced
// length is not backed by data: every container form x element type x length
// marker/width x boundary lengths (0, 1, marker maxima, 2^31, 2^40, 2^59..2^63-1:
// the values at which length*size computations wrap), each bare and followed by
// 16 payload bytes.
func hostileHeaders(format string) [][]byte {
	var out [][]byte
	add := func(h []byte) {
		out = append(out, h, append(append([]byte{}, h...), bytes.Repeat([]byte{0x01}, 16)...))
	}
	be := func(v uint64, n int) []byte {
		b := make([]byte, n)
		for i := n - 1; i >= 0; i-- {
			b[i] = byte(v)
			v >>= 8
		}
		return b
	}
	counts := []uint64{0, 1, 2, 127, 128, 255, 256, 32767, 65535, 1 << 31, 1<<31 - 1, 1<<32 - 1, 1 << 40, 1 << 59, 1 << 60, 1<<60 + 1, 1 << 61, 1<<61 + 2, 1 << 62, 1<<63 - 1, 1 << 63, 1<<64 - 1}
	switch format {
	case "ubjson":
		markers := []struct {
			m    byte
			n    int
			max  uint64
			sign bool
		}{{'i', 1, 127, true}, {'U', 1, 255, false}, {'I', 2, 32767, true}, {'l', 4, 1<<31 - 1, true}, {'L', 8, 1<<63 - 1, true}}
		for _, mk := range markers {
			for _, c := range counts {
				if c > mk.max && !(mk.sign && c == mk.max+1) && c != 1<<64-1 {
					continue // (max+1 and all-ones are the negative lengths of signed markers)
				}
				l := append([]byte{mk.m}, be(c, mk.n)...)
				add(append([]byte("[#"), l...))
				add(append([]byte("{#"), l...))
				add(append([]byte("S"), l...))
				add(append([]byte("H"), l...))
				for _, t := range []byte("iUIlLdDCSHZTF[{N") {
					add(append([]byte{'[', '$', t, '#'}, l...))
					add(append([]byte{'{', '$', t, '#'}, l...))
				}
			}
		}
	case "cborl":
		for _, major := range []byte{2, 3, 4, 5} {
			for _, c := range counts {
				for _, w := range []struct {
					code byte
					n    int
					max  uint64
				}{{24, 1, 255}, {25, 2, 65535}, {26, 4, 1<<32 - 1}, {27, 8, 1<<64 - 1}} {
					if c > w.max {
						continue
					}
					add(append([]byte{major<<5 | w.code}, be(c, w.n)...))
				}
			}
		}
	}
	return out
}

func drawC03(t *rapid.T) any {
	c := &C03Case{Format: rapid.SampledFrom(formatNames).Draw(t, "format")}
	c.Entry = rapid.SampledFrom(c03Entries).Draw(t, "entry")
	var spans []gen2Span
	_ = spans
	switch w := rapid.IntRange(0, 19).Draw(t, "srcw"); {
	case w < 3:
		c.Kind = "random"
		c.Data = rapid.SliceOfN(rapid.Byte(), 0, 64).Draw(t, "rnd")
	case w < 6:
		c.Kind = "hostile"
		c.Data = []byte(rapid.SampledFrom(c03Hostile[c.Format]).Draw(t, "hostile"))
		if hh := hostileHeaders(c.Format); len(hh) > 0 && rapid.Bool().Draw(t, "hostile_matrix") {
			c.Data = append([]byte{}, hh[rapid.IntRange(0, len(hh)-1).Draw(t, "hostile_h")]...)
		}
		if rapid.Bool().Draw(t, "hostile_tail") {
			c.Data = append(c.Data, rapid.SliceOfN(rapid.Byte(), 0, 12).Draw(t, "tail")...)
		}
		if rapid.IntRange(0, 3).Draw(t, "hostile_nest") == 3 {
			// place the constant inside a valid prefix
			d := validDoc(t, c.Format, true)
			pos := rapid.IntRange(0, len(d.Bytes)).Draw(t, "hostile_pos")
			c.Data = append(append(append([]byte{}, d.Bytes[:pos]...), c.Data...), d.Bytes[pos:]...)
		}
	case w < 10:
		c.Kind = "prefix"
		d := validDoc(t, c.Format, false)
		if len(d.Bytes) > 0 {
			c.Data = d.Bytes[:rapid.IntRange(0, len(d.Bytes)-1).Draw(t, "prefix")]
		}
	case w < 12:
		c.Kind = "valid"
		c.Data = validDoc(t, c.Format, false).Bytes
	case w < 13:
		c.Kind = "large"
		// a long valid-ish input for the linearity bound
		n := rapid.IntRange(2, 40).Draw(t, "largek")
		for i := 0; i < n; i++ {
			c.Data = append(c.Data, validDoc(t, c.Format, true).Bytes...)
		}
	default:
		c.Kind = "mutated"
		d := validDoc(t, c.Format, false)
		c.Data = mutateBytes(t, d.Bytes)
		if rapid.Bool().Draw(t, "mut2") {
			c.Data = mutateBytes(t, c.Data)
		}
	}
	if c.Entry == "parsereader" || c.Entry == "write" || c.Entry == "decoder" {
		c.Cuts = gen.Cuts(t, len(c.Data), nil)
		c.EOFData = rapid.Bool().Draw(t, "eofdata")
		if rapid.IntRange(0, 3).Draw(t, "zeroreads") == 0 {
			c.ZeroReads = rapid.IntRange(1, 3).Draw(t, "zeroevery")
		}
	}
	if c.Entry == "decoder" {
		c.BufSize = rapid.SampledFrom([]int{1, 2, 3, 7, 16, 64, 4096}).Draw(t, "bufsize")
	}
	if c.Entry != "parsereader" && rapid.IntRange(0, 2).Draw(t, "again") > 0 {
		c.Again = &C03Again{Empty: rapid.Bool().Draw(t, "again_empty")}
		switch rapid.IntRange(0, 3).Draw(t, "againw") {
		case 0:
			c.Again.Data = append([]byte{}, c.Data...)
		case 1:
			c.Again.Data = validDoc(t, c.Format, true).Bytes
		case 2:
			c.Again.Data = []byte(rapid.SampledFrom(c03Hostile[c.Format]).Draw(t, "again_hostile"))
		default:
			c.Again.Data = rapid.SliceOfN(rapid.Byte(), 0, 8).Draw(t, "again_rnd")
		}
	}
	return c
}

type gen2Span struct{}

func init() {
	register(&Property{
		ID:    "C03",
		Rule:  "inputs: random bytes; hostile constants from the statement (every class of IEEE bit pattern in every float width of the binary formats, CBOR tag/half float/minors 28-30/lengths 2^63..2^64-1, UBJSON bad length markers/unterminated containers/$N, JSON broken escapes and lone surrogates) alone, with random tails or spliced into valid documents; every proper prefix of valid own/foreign documents; 1-2 byte-level mutations of valid documents (bit flip, insert, delete, overwrite, hostile length fields); long concatenations for the linear bound x chunkings x entry points {Parse, ParseString, ParseReader, Write, NewBytesDecoder+Next, NewDecoder+Next with buffer sizes 1..4096; 1 in 4 readers answer a Read with (0, nil) before every 1st..3rd data read}; 2 of 3 cases use the SAME parser (Parse/ParseString/Write) or decoder (3 more Next calls) once more after the first input ended, whatever its outcome (half of them with an empty input in between), and that second use must return without panic or hang; oracle = no panic, no hang (watchdog), Next loop <= len+2 calls, TotalAlloc <= 64KiB+buf+64*len, ParseString leaves its argument intact, and inputs the reference decoder classifies as 'needs more input' must end in an error other than io.EOF at every end-aware entry point; deterministic part: every prefix (incl. empty and full) of a fixed set of valid documents and every hostile constant x all 6 entry points; non-trivial = at least one event delivered or input >= 2 bytes; distinct by case hash; scaling probes (deterministic): 21 single-construct document families (runs of backslashes, escapes, digits, whitespace, nesting, members, no-ops, long strings/keys/byte strings ...) at 30 KB and 120 KB fed byte-wise through Write, through ParseReader in 3-byte reads and through a pull decoder with a 3-byte buffer; a violation needs more than 1 s of process CPU time for the larger input AND more than 8x the CPU time of the smaller one",
		New:   func() any { return &C03Case{} },
		Draw:  drawC03,
		Check: checkC03,
		Enum:  enumC03,
	})
}

// hasZeroSizedTypedHeader recognises the mechanism of the open finding
// ubjson.zero_payload_amplification: a typed container header whose element
// type has no payload ("$Z#", "$T#", "$F#").
func hasZeroSizedTypedHeader(b []byte) bool {
	for i := 0; i+2 < len(b); i++ {
		if b[i] == '$' && (b[i+1] == 'Z' || b[i+1] == 'T' || b[i+1] == 'F') && b[i+2] == '#' {
			return true
		}
	}
	return false
}
