package props

import (
	"bytes"
	"encoding/json"
	"io"
	"regexp"

	"pgregory.net/rapid"

	"verif/harness/gen"
	"verif/harness/model"
	"verif/harness/ref"
)

// Doc is a generated document with its token spans.
type Doc struct {
	Bytes []byte
	Spans []ref.Span
	Src   string // "own" (library encoder) or "foreign" (reference encoder)
}

func spansToPairs(s []ref.Span) [][2]int {
	out := make([][2]int, len(s))
	for i, x := range s {
		out[i] = [2]int{x.Start, x.End}
	}
	return out
}

func pairsToSpans(p [][2]int) []ref.Span {
	out := make([]ref.Span, len(p))
	for i, x := range p {
		out[i] = ref.Span{Start: x[0], End: x[1]}
	}
	return out
}

// ownDoc encodes a generated stream with the library's encoder, measuring the
// byte span of every event's output. ok is false when the encoder fails (the
// pinned tree has encoder defects; those belong to C01/C07).
func ownDoc(t *rapid.T, format string, cfg gen.StreamCfg) (Doc, bool) {
	evs, _ := gen.Stream(t, cfg)
	var buf bytes.Buffer
	vis := codecs[format].NewVisitor(&buf, EncOpts{IgnoreInvalidFloat: true})
	var spans []ref.Span
	o := guard(func() error {
		ev := ensureExt(vis)
		for _, e := range evs {
			start := buf.Len()
			if err := model.ApplyOne(e, ev); err != nil {
				return err
			}
			if buf.Len()-start >= 2 {
				spans = append(spans, ref.Span{Start: start, End: buf.Len()})
			}
		}
		return nil
	})
	if o.Panicked() || o.Err != nil {
		return Doc{}, false
	}
	return Doc{Bytes: append([]byte{}, buf.Bytes()...), Spans: spans, Src: "own"}, true
}

// foreignDoc renders a generated value with the harness' constructive encoder.
func foreignDoc(t *rapid.T, format string, container bool) Doc {
	switch format {
	case "cborl":
		v := gen.Value(t, gen.ValueCfg{IntRange: "cbor-supported", Floats32: true, Deep: !container, Container: container, NoEmptyKey: gen.Excluded("empty_key")})
		e := &ref.CBOREnc{C: gen.RapidChooser{T: t}}
		e.Encode(v)
		return Doc{Bytes: e.Out, Spans: e.Spans, Src: "foreign"}
	case "ubjson":
		v := gen.Value(t, gen.ValueCfg{IntRange: "int64", Floats32: true, Decimals: true, Deep: !container, Container: container})
		e := newUBJEnc(t)
		e.Encode(v)
		return Doc{Bytes: e.Out, Spans: e.Spans, Src: "foreign"}
	default:
		v := gen.Value(t, gen.ValueCfg{IntRange: "json", ValidUTF8: true, Finite: true, Deep: !container, Container: container})
		e := &ref.JSONEnc{C: gen.RapidChooser{T: t}, LoneSurrogates: true}
		e.Encode(v)
		text, spans := ref.JoinJSON(e.Toks)
		return Doc{Bytes: text, Spans: spans, Src: "foreign"}
	}
}

// validDoc draws a valid document of the format (own or foreign producer).
func validDoc(t *rapid.T, format string, container bool) Doc {
	if rapid.IntRange(0, 2).Draw(t, "docsrc") == 0 {
		cfg := gen.StreamCfg{Ext: true, Refs: true, Deep: !container, Container: container, ValidUTF8: true, Finite: format == "json"}
		if format == "cborl" && gen.Excluded("empty_key") {
			// Key() already honours the exclusion
		}
		if d, ok := ownDoc(t, format, cfg); ok {
			return d
		}
	}
	return foreignDoc(t, format, container)
}

// mutateBytes derives a (most likely invalid) document from a valid one.
func mutateBytes(t *rapid.T, b []byte) []byte {
	out := append([]byte{}, b...)
	if len(out) == 0 {
		return []byte{rapid.Byte().Draw(t, "mutb0")}
	}
	switch rapid.IntRange(0, 7).Draw(t, "bmut") {
	case 6: // a run of bytes >= 0x80 (in a JSON string: invalid UTF-8 that the
		// parser replaces, growing the unquoted text beyond its source)
		i := rapid.IntRange(0, len(out)).Draw(t, "bmuti")
		n := rapid.IntRange(3, 24).Draw(t, "bmutrun")
		run := make([]byte, n)
		for j := range run {
			run[j] = byte(rapid.SampledFrom([]int{0x80, 0xbf, 0xc0, 0xc3, 0xe2, 0xed, 0xf0, 0xf4, 0xfe, 0xff}).Draw(t, "bmuthi"))
		}
		out = append(out[:i], append(run, out[i:]...)...)
		return out
	case 7: // repeat a slice of the document
		i := rapid.IntRange(0, len(out)-1).Draw(t, "bmuti")
		j := rapid.IntRange(i+1, min(len(out), i+16)).Draw(t, "bmutj")
		rep := append([]byte{}, out[i:j]...)
		out = append(out[:j], append(rep, out[j:]...)...)
		return out
	case 0: // truncate
		return out[:rapid.IntRange(0, len(out)-1).Draw(t, "bmuttr")]
	case 1: // bit flip
		i := rapid.IntRange(0, len(out)-1).Draw(t, "bmuti")
		out[i] ^= 1 << uint(rapid.IntRange(0, 7).Draw(t, "bmutbit"))
	case 2: // overwrite a byte
		i := rapid.IntRange(0, len(out)-1).Draw(t, "bmuti")
		out[i] = rapid.Byte().Draw(t, "bmutv")
	case 3: // insert
		i := rapid.IntRange(0, len(out)).Draw(t, "bmuti")
		ins := rapid.SliceOfN(rapid.Byte(), 1, 4).Draw(t, "bmutins")
		out = append(out[:i], append(ins, out[i:]...)...)
	case 4: // delete
		i := rapid.IntRange(0, len(out)-1).Draw(t, "bmuti")
		out = append(out[:i], out[i+1:]...)
	default: // overwrite with a hostile length field
		h := rapid.SampledFrom(hostileLens).Draw(t, "bmuth")
		i := rapid.IntRange(0, len(out)-1).Draw(t, "bmuti")
		out = append(out[:i], append(append([]byte{}, h...), out[min(len(out), i+len(h)):]...)...)
	}
	return out
}

var hostileLens = [][]byte{
	{0x7f, 0xff, 0xff, 0xff}, {0x80, 0x00, 0x00, 0x00}, {0xff, 0xff, 0xff, 0xff},
	{0x7f, 0xff, 0xff, 0xff, 0xff, 0xff, 0xff, 0xff}, {0x80, 0, 0, 0, 0, 0, 0, 0}, {0xff, 0xff, 0xff, 0xff, 0xff, 0xff, 0xff, 0xff},
	{0x00, 0x00, 0x00, 0x01, 0x00, 0x00, 0x00, 0x00},
}

// ---- readers ----

// chunkReader returns the data in the given chunks, one per Read (a chunk
// larger than len(p) is returned in pieces). eofWithData returns io.EOF
// together with the last chunk.
type chunkReader struct {
	chunks      [][]byte
	eofWithData bool
	reads       int
	// zeroEvery > 0: before every zeroEvery-th Read that would return data (or
	// io.EOF) one Read returns (0, nil) — "nothing happened", which io.Reader
	// allows and a caller must answer by reading again. Always finitely many.
	zeroEvery int
	calls     int
	zeroDone  bool
	// scribble: overwrite the bytes handed out by the previous Read (the
	// caller's buffer belongs to the caller again, but a correct consumer must
	// not depend on data it no longer owns — used by C15).
}

func (r *chunkReader) Read(p []byte) (int, error) {
	if r.zeroEvery > 0 && !r.zeroDone && r.calls%r.zeroEvery == 0 {
		r.zeroDone = true
		return 0, nil
	}
	r.zeroDone = false
	r.calls++
	for len(r.chunks) > 0 && len(r.chunks[0]) == 0 {
		r.chunks = r.chunks[1:]
	}
	if len(r.chunks) == 0 {
		return 0, io.EOF
	}
	r.reads++
	n := copy(p, r.chunks[0])
	r.chunks[0] = r.chunks[0][n:]
	if len(r.chunks[0]) == 0 {
		r.chunks = r.chunks[1:]
	}
	if r.eofWithData && len(r.chunks) == 0 {
		return n, io.EOF
	}
	return n, nil
}

// ---- truncation classification ----

var jsonNumberish = regexp.MustCompile(`^[ \t\r\n]*[-+0-9.eE]*$`)

// needsMoreInput reports whether p is a non-empty proper prefix that the
// reference decoder classifies as "ends in the middle of a value".
func needsMoreInput(format string, p []byte) bool {
	if len(p) == 0 {
		return false
	}
	switch format {
	case "cborl":
		_, _, st, _ := ref.DecodeCBOR(p)
		return st == ref.Truncated
	case "ubjson":
		onlyNoops := true
		for _, c := range p {
			if c != 'N' {
				onlyNoops = false
			}
		}
		if onlyNoops {
			return false
		}
		_, _, st, info := ref.DecodeUBJSON(p)
		return st == ref.Truncated && !info.Ambiguous
	default:
		if jsonNumberish.Match(p) || jsonEndsInTopLevelNumber(p) {
			return false // number tokens are excluded (DESIGN C03)
		}
		dec := json.NewDecoder(bytes.NewReader(p))
		for {
			_, err := dec.Token()
			if err == io.EOF {
				// token stream ended cleanly: truncated iff a container is open
				return !json.Valid(p) && jsonOpenAtEnd(p)
			}
			if err != nil {
				return err == io.ErrUnexpectedEOF || err.Error() == "unexpected EOF"
			}
		}
	}
}

// jsonOpenAtEnd: a crude structural scan (strings skipped) telling whether a
// container or a string is still open at the end of p.
func jsonOpenAtEnd(p []byte) bool {
	depth := 0
	inStr, esc := false, false
	for _, c := range p {
		if inStr {
			switch {
			case esc:
				esc = false
			case c == '\\':
				esc = true
			case c == '"':
				inStr = false
			}
			continue
		}
		switch c {
		case '"':
			inStr = true
		case '[', '{':
			depth++
		case ']', '}':
			depth--
		}
	}
	return inStr || depth > 0
}

// jsonEndsInTopLevelNumber: the input ends with a number-ish run outside any
// container or string. Whether such a run is a complete number is a matter of
// the (deliberately lenient) number grammar, not of truncation.
func jsonEndsInTopLevelNumber(p []byte) bool {
	depth := 0
	inStr, esc := false, false
	lastNum := false
	for _, c := range p {
		if inStr {
			switch {
			case esc:
				esc = false
			case c == '\\':
				esc = true
			case c == '"':
				inStr = false
			}
			lastNum = false
			continue
		}
		lastNum = false
		switch {
		case c == '"':
			inStr = true
		case c == '[' || c == '{':
			depth++
		case c == ']' || c == '}':
			depth--
		case c == '-' || c == '+' || c == '.' || c == 'e' || c == 'E' || (c >= '0' && c <= '9'):
			lastNum = true
		}
	}
	return lastNum && !inStr && depth <= 0
}
