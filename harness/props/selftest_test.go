package props

import (
	"encoding/hex"
	"math"
	"math/big"
	"testing"

	"pgregory.net/rapid"

	"verif/harness/gen"
	"verif/harness/model"
	"verif/harness/ref"
)

// RFC 7049 Appendix A vectors (diagnostic value spelled as model.V).
func TestSelfCBORVectors(t *testing.T) {
	neg := func(s string) model.V { n, _ := new(big.Int).SetString(s, 10); return model.BigInt(n) }
	str := func(s string) model.V { return model.Str([]byte(s)) }
	type vec struct {
		hex   string
		v     model.V
		unsup bool
	}
	vecs := []vec{
		{"00", model.Uint(0), false}, {"01", model.Uint(1), false}, {"0a", model.Uint(10), false}, {"17", model.Uint(23), false},
		{"1818", model.Uint(24), false}, {"1819", model.Uint(25), false}, {"1864", model.Uint(100), false}, {"1903e8", model.Uint(1000), false},
		{"1a000f4240", model.Uint(1000000), false}, {"1b000000e8d4a51000", model.Uint(1000000000000), false},
		{"1bffffffffffffffff", model.Uint(math.MaxUint64), false},
		{"3bffffffffffffffff", neg("-18446744073709551616"), true},
		{"20", model.Int(-1), false}, {"29", model.Int(-10), false}, {"3863", model.Int(-100), false}, {"3903e7", model.Int(-1000), false},
		{"f90000", model.Float32Bits(math.Float32bits(0)), true}, {"f93c00", model.Float32Bits(math.Float32bits(1)), true},
		{"f97bff", model.Float32Bits(math.Float32bits(65504)), true}, {"f90001", model.Float32Bits(math.Float32bits(5.960464477539063e-8)), true},
		{"f9c400", model.Float32Bits(math.Float32bits(-4)), true}, {"f97c00", model.Float32Bits(math.Float32bits(float32(math.Inf(1)))), true},
		{"fb3ff199999999999a", model.Float64(1.1), false}, {"fa47c35000", model.Float32Bits(math.Float32bits(100000)), false},
		{"fa7f7fffff", model.Float32Bits(math.Float32bits(3.4028234663852886e+38)), false}, {"fb7e37e43c8800759c", model.Float64(1e300), false},
		{"fbc010666666666666", model.Float64(-4.1), false}, {"fa7f800000", model.Float32Bits(0x7f800000), false},
		{"fb7ff0000000000000", model.Float64(math.Inf(1)), false},
		{"f4", model.Bool(false), false}, {"f5", model.Bool(true), false}, {"f6", model.Null(), false}, {"f7", model.Null(), false},
		{"f0", model.Null(), true}, {"f818", model.Null(), true}, {"f8ff", model.Null(), true},
		{"c074323031332d30332d32315432303a30343a30305a", str("2013-03-21T20:04:00Z"), true},
		{"c11a514b67b0", model.Uint(1363896240), true},
		{"40", model.Arr(), false}, {"4401020304", model.Arr(model.Uint(1), model.Uint(2), model.Uint(3), model.Uint(4)), false},
		{"60", str(""), false}, {"6161", str("a"), false}, {"6449455446", str("IETF"), false}, {"62225c", str("\"\\"), false},
		{"62c3bc", str("ü"), false}, {"63e6b0b4", str("水"), false}, {"64f0908591", str("\U00010151"), false},
		{"80", model.Arr(), false}, {"83010203", model.Arr(model.Uint(1), model.Uint(2), model.Uint(3)), false},
		{"8301820203820405", model.Arr(model.Uint(1), model.Arr(model.Uint(2), model.Uint(3)), model.Arr(model.Uint(4), model.Uint(5))), false},
		{"a0", model.Obj(), false},
		{"a26161016162820203", model.Obj(model.Member{Key: []byte("a"), Val: model.Uint(1)}, model.Member{Key: []byte("b"), Val: model.Arr(model.Uint(2), model.Uint(3))}), false},
		{"826161a161626163", model.Arr(str("a"), model.Obj(model.Member{Key: []byte("b"), Val: str("c")})), false},
		{"5f42010243030405ff", model.Arr(model.Uint(1), model.Uint(2), model.Uint(3), model.Uint(4), model.Uint(5)), true},
		{"7f657374726561646d696e67ff", str("streaming"), true},
		{"9fff", model.Arr(), false},
		{"9f018202039f0405ffff", model.Arr(model.Uint(1), model.Arr(model.Uint(2), model.Uint(3)), model.Arr(model.Uint(4), model.Uint(5))), false},
		{"83018202039f0405ff", model.Arr(model.Uint(1), model.Arr(model.Uint(2), model.Uint(3)), model.Arr(model.Uint(4), model.Uint(5))), false},
		{"bf61610161629f0203ffff", model.Obj(model.Member{Key: []byte("a"), Val: model.Uint(1)}, model.Member{Key: []byte("b"), Val: model.Arr(model.Uint(2), model.Uint(3))}), false},
		{"bf6346756ef563416d7421ff", model.Obj(model.Member{Key: []byte("Fun"), Val: model.Bool(true)}, model.Member{Key: []byte("Amt"), Val: model.Int(-2)}), false},
	}
	for _, vc := range vecs {
		b, _ := hex.DecodeString(vc.hex)
		v, n, st, info := ref.DecodeCBOR(b)
		if st != ref.OK || n != len(b) {
			t.Errorf("%s: status %v consumed %d/%d", vc.hex, st, n, len(b))
			continue
		}
		if d := model.Diff(vc.v, v, model.Rules{}); d != "" {
			t.Errorf("%s: %s", vc.hex, d)
		}
		if (info.Unsupported != "") != vc.unsup {
			t.Errorf("%s: unsupported=%q, want %v", vc.hex, info.Unsupported, vc.unsup)
		}
		// every proper prefix needs more input
		for i := 0; i < len(b); i++ {
			if _, _, st, _ := ref.DecodeCBOR(b[:i]); st != ref.Truncated {
				t.Errorf("%s: prefix %d classified %v", vc.hex, i, st)
			}
		}
	}
	for _, bad := range []string{"ff", "1c", "1d", "1e", "3c", "5c", "7e", "9e", "be", "dc", "fc", "fd", "fe", "1f", "3f", "81ff", "a1ff", "bf6161ff", "5f00ff", "7f40ff"} {
		b, _ := hex.DecodeString(bad)
		if _, _, st, _ := ref.DecodeCBOR(b); st != ref.Malformed {
			t.Errorf("%s: classified %v, want malformed", bad, st)
		}
	}
}

func TestSelfCBORRoundTrip(t *testing.T) {
	rapid.Check(t, func(rt *rapid.T) {
		v := gen.Value(rt, gen.ValueCfg{IntRange: "cbor", Floats32: true, Deep: true})
		e := &ref.CBOREnc{C: gen.RapidChooser{T: rt}}
		e.Encode(v)
		got, n, st, _ := ref.DecodeCBOR(e.Out)
		if st != ref.OK || n != len(e.Out) {
			rt.Fatalf("status %v consumed %d/%d for %x", st, n, len(e.Out), e.Out)
		}
		if d := model.Diff(v, got, model.Rules{}); d != "" {
			rt.Fatalf("%s (%x)", d, e.Out)
		}
		for _, s := range e.Spans {
			if s.Start < 0 || s.End > len(e.Out) || s.End-s.Start < 2 {
				rt.Fatalf("bad span %v", s)
			}
		}
	})
}

func TestSelfUBJSONRoundTrip(t *testing.T) {
	rapid.Check(t, func(rt *rapid.T) {
		v := gen.Value(rt, gen.ValueCfg{IntRange: "int64", Floats32: true, Decimals: true, Deep: true})
		e := &ref.UBJEnc{C: gen.RapidChooser{T: rt}}
		e.Encode(v)
		got, n, st, info := ref.DecodeUBJSON(e.Out)
		if st != ref.OK || n != len(e.Out) {
			rt.Fatalf("status %v consumed %d/%d for %q", st, n, len(e.Out), e.Out)
		}
		if info.Ambiguous {
			rt.Fatalf("generator produced an ambiguous document %q", e.Out)
		}
		if d := model.Diff(v, got, model.Rules{}); d != "" {
			rt.Fatalf("%s (%q)", d, e.Out)
		}
	})
}

func TestSelfUBJSONVectors(t *testing.T) {
	cases := []struct {
		in string
		v  model.V
	}{
		{"Z", model.Null()}, {"NNT", model.Bool(true)}, {"i\xff", model.Int(-1)}, {"U\xff", model.Int(255)},
		{"I\x80\x00", model.Int(-32768)}, {"l\x7f\xff\xff\xff", model.Int(math.MaxInt32)},
		{"L\x80\x00\x00\x00\x00\x00\x00\x00", model.Int(math.MinInt64)},
		{"Ca", model.Int('a')}, {"Si\x02hi", model.Str([]byte("hi"))}, {"SU\x02hi", model.Str([]byte("hi"))},
		{"Hi\x033.1", model.Str([]byte("3.1"))},
		{"[]", model.Arr()}, {"[i\x01NZ]", model.Arr(model.Int(1), model.Null())},
		{"[#i\x02ZT", model.Arr(model.Null(), model.Bool(true))},
		{"[$i#i\x03\x01\x02\x03", model.Arr(model.Int(1), model.Int(2), model.Int(3))},
		{"[$Z#i\x02", model.Arr(model.Null(), model.Null())},
		{"[$[#i\x02$i#i\x01\x05]", model.Arr(model.Arr(model.Int(5)), model.Arr())},
		{"{i\x01ai\x01}", model.Obj(model.Member{Key: []byte("a"), Val: model.Int(1)})},
		{"{$S#i\x01i\x01ki\x01v", model.Obj(model.Member{Key: []byte("k"), Val: model.Str([]byte("v"))})},
		{"{#i\x01i\x00Z", model.Obj(model.Member{Key: []byte(""), Val: model.Null()})},
	}
	for _, c := range cases {
		v, n, st, _ := ref.DecodeUBJSON([]byte(c.in))
		if st != ref.OK || n != len(c.in) {
			t.Errorf("%q: status %v consumed %d", c.in, st, n)
			continue
		}
		if d := model.Diff(c.v, v, model.Rules{}); d != "" {
			t.Errorf("%q: %s", c.in, d)
		}
	}
	for _, bad := range []string{"X", "[$i", "[$i]", "[#S", "Si\xff", "[$i#i\xff", "}"} {
		if _, _, st, _ := ref.DecodeUBJSON([]byte(bad)); st == ref.OK {
			t.Errorf("%q: accepted", bad)
		}
	}
}

func TestSelfJSONRoundTrip(t *testing.T) {
	rapid.Check(t, func(rt *rapid.T) {
		v := gen.Value(rt, gen.ValueCfg{IntRange: "json", ValidUTF8: true, Finite: true, Deep: true})
		e := &ref.JSONEnc{C: gen.RapidChooser{T: rt}}
		e.Encode(v)
		text, _ := ref.JoinJSON(e.Toks)
		got, _, err := ref.DecodeJSON(text)
		if err != nil {
			rt.Fatalf("encoding/json rejects generated text %q: %v", text, err)
		}
		if d := model.Diff(v, got, model.Rules{JSONFloat: true}); d != "" {
			rt.Fatalf("%s (%q)", d, text)
		}
	})
}
