package props

import (
	"bytes"
	"fmt"
	"reflect"

	structform "github.com/elastic/go-structform"
	"github.com/elastic/go-structform/gotype"
	"pgregory.net/rapid"

	"verif/harness/gen"
	"verif/harness/gomodel"
	"verif/harness/model"
)

// C20 — the unfolder's key cache never changes results, for any capacity.

type C20Doc struct {
	Keys [][]byte `json:"keys"`
	Vals []int64  `json:"vals"`
}

type C20Case struct {
	Cap    int      `json:"cap"`
	Target string   `json:"target"` // map_iface | map_int | iface | map_struct | struct_map
	Via    string   `json:"via"`    // direct | json | ubjson | cborl
	Docs   []C20Doc `json:"docs"`
	Cuts   []int    `json:"cuts,omitempty"` // parser routes: chunking applied to every document (positions beyond the end are ignored)
	// Recap[i] >= 0: EnableKeyCache(Recap[i]) is called again before document i
	// (an application re-configuring the cache per batch)
	Recap []int `json:"recap,omitempty"`
	// Reset[i]: Reset() is called on both unfolders before document i (what an
	// application does with a pooled unfolder); the cache stays enabled
	Reset []bool `json:"reset,omitempty"`
}

func c20TargetType(name string) reflect.Type {
	switch name {
	case "map_int":
		return reflect.TypeOf(map[string]int(nil))
	case "iface":
		return reflect.TypeOf((*interface{})(nil)).Elem()
	case "map_struct":
		return reflect.MapOf(reflect.TypeOf(""), reflect.StructOf([]reflect.StructField{{Name: "V", Type: reflect.TypeOf(int64(0))}}))
	case "struct_map":
		return reflect.StructOf([]reflect.StructField{{Name: "M", Type: reflect.TypeOf(map[string][]int(nil))}})
	}
	return reflect.TypeOf(map[string]interface{}(nil))
}

// c20Events renders a document for the target shape.
func c20Events(target string, d C20Doc) []model.Ev {
	evs := []model.Ev{{K: model.KObjStart, L: len(d.Keys)}}
	for i, k := range d.Keys {
		evs = append(evs, model.Ev{K: model.KKeyRef, S: k})
		v := model.Ev{K: model.KI64, I: d.Vals[i]}
		switch target {
		case "map_struct":
			evs = append(evs, model.Ev{K: model.KObjStart, L: 1}, model.Ev{K: model.KKeyRef, S: []byte("v")}, v, model.Ev{K: model.KObjEnd})
		case "struct_map":
			evs = append(evs, model.Ev{K: model.KArrStart, L: 1}, v, model.Ev{K: model.KArrEnd})
		default:
			evs = append(evs, v)
		}
	}
	evs = append(evs, model.Ev{K: model.KObjEnd})
	if target == "struct_map" {
		evs = append([]model.Ev{{K: model.KObjStart, L: 1}, {K: model.KKeyRef, S: []byte("m")}}, append(evs, model.Ev{K: model.KObjEnd})...)
	}
	return evs
}

// scribbleApply delivers events directly; by-reference payloads live in a
// scratch buffer that is overwritten as soon as the callback returns.
func scribbleApply(evs []model.Ev, u structform.ExtVisitor) error {
	scratch := make([]byte, 0, 64)
	for _, e := range evs {
		var err error
		switch e.K {
		case model.KKeyRef:
			scratch = append(scratch[:0], e.S...)
			err = u.OnKeyRef(scratch)
			for i := range scratch {
				scratch[i] = 'X'
			}
		case model.KStrRef:
			scratch = append(scratch[:0], e.S...)
			err = u.OnStringRef(scratch)
			for i := range scratch {
				scratch[i] = 'X'
			}
		default:
			err = model.ApplyOne(e, u)
		}
		if err != nil {
			return err
		}
	}
	return nil
}

// scribbleFeed writes doc to a push parser in chunks from a scratch buffer that
// is overwritten right after each Write.
func scribbleFeed(p pushParser, doc []byte, cuts []int) error {
	scratch := make([]byte, 0, 64)
	prev := 0
	bounds := append(append([]int{}, cuts...), len(doc))
	for _, c := range bounds {
		if c <= prev || c > len(doc) {
			continue
		}
		scratch = append(scratch[:0], doc[prev:c]...)
		_, err := p.Write(scratch)
		for i := range scratch {
			scratch[i] = 0xEE
		}
		if err != nil {
			return err
		}
		prev = c
	}
	return nil
}

// scribbleFeedFinish is scribbleFeed with the last chunk delivered through
// Parser.Parse (scratch buffer, overwritten afterwards) or Parser.ParseString.
func scribbleFeedFinish(p pushParser, doc []byte, cuts []int, finish string) error {
	fp, ok := p.(interface {
		Parse([]byte) error
		ParseString(string) error
	})
	if finish == "" || !ok {
		return scribbleFeed(p, doc, cuts)
	}
	last := 0
	var head []int
	for _, c := range cuts {
		if c > 0 && c < len(doc) {
			head = append(head, c)
			last = c
		}
	}
	if last > 0 {
		if err := scribbleFeed(p, doc[:last], head[:len(head)-1]); err != nil {
			return err
		}
	}
	if finish == "parsestring" {
		return fp.ParseString(string(doc[last:]))
	}
	scratch := append(make([]byte, 0, 64), doc[last:]...)
	err := fp.Parse(scratch)
	for i := range scratch {
		scratch[i] = 0xEE
	}
	return err
}

func checkC20(ci any, info *CaseInfo) string {
	c := ci.(*C20Case)
	typ := c20TargetType(c.Target)
	info.Class("target:" + c.Target)
	info.Class("via:" + c.Via)
	info.Class(fmt.Sprintf("cap:%d", c.Cap))
	var withCache, without *gotype.Unfolder
	o := guard(func() error {
		var err error
		if withCache, err = gotype.NewUnfolder(nil); err != nil {
			return err
		}
		withCache.EnableKeyCache(c.Cap)
		without, err = gotype.NewUnfolder(nil)
		return err
	})
	if o.Panicked() || o.Err != nil {
		return fmt.Sprintf("creating the unfolders / EnableKeyCache(%d) fails: %v", c.Cap, o)
	}
	type pair struct{ a, b reflect.Value }
	var results []pair
	everCached := map[string]bool{}
	evicted := map[string]bool{}
	reinserted := false
	desc := fmt.Sprintf("capacity %d, target %s, via %s", c.Cap, c.Target, c.Via)
	for i, d := range c.Docs {
		evs := c20Events(c.Target, d)
		var data []byte
		if c.Via != "direct" {
			var eo Outcome
			data, eo = encodeStream(codecs[c.Via], EncOpts{}, evs)
			if eo.Panicked() || eo.Err != nil {
				return fmt.Sprintf("harness: cannot encode document: %v", eo)
			}
		}
		run := func(u *gotype.Unfolder) (reflect.Value, Outcome) {
			target := reflect.New(typ)
			o := guard(func() error {
				if i < len(c.Reset) && c.Reset[i] {
					u.Reset()
				}
				if err := u.SetTarget(target.Interface()); err != nil {
					return err
				}
				if c.Via == "direct" {
					return scribbleApply(evs, ensureExt(u))
				}
				return scribbleFeed(codecs[c.Via].NewParser(u), data, c.Cuts)
			})
			return target, o
		}
		capNow := c.Cap
		if i < len(c.Recap) && c.Recap[i] >= 0 {
			info.Class("cache_reconfigured")
			ro := guard(func() error { withCache.EnableKeyCache(c.Recap[i]); return nil })
			if ro.Panicked() {
				return fmt.Sprintf("%s: EnableKeyCache(%d) before document #%d panics: %v", desc, c.Recap[i], i, ro.Panic)
			}
			capNow = c.Recap[i]
			for k := range everCached {
				delete(everCached, k)
			}
			for k := range evicted {
				delete(evicted, k)
			}
		}
		for j := 0; j <= i && j < len(c.Recap); j++ {
			if c.Recap[j] >= 0 {
				capNow = c.Recap[j]
			}
		}
		ta, oa := run(withCache)
		tb, ob := run(without)
		if oa.Panicked() {
			return fmt.Sprintf("%s: document #%d %v panics with the key cache: %v\n%s", desc, i, d.keyStrings(), oa.Panic, oa.Stack)
		}
		if ob.Panicked() || ob.Err != nil {
			return fmt.Sprintf("harness: document #%d fails without cache: %v", i, ob)
		}
		if oa.Err != nil {
			return fmt.Sprintf("%s: document #%d %v fails with the key cache (%v) but not without", desc, i, d.keyStrings(), oa.Err)
		}
		if dd := gomodel.GoEqual(tb.Elem(), ta.Elem(), true); dd != "" {
			return fmt.Sprintf("%s: document #%d %v: result with cache differs from the result without: %s\n  with:    %+v\n  without: %+v", desc, i, d.keyStrings(), dd, safeInterface(ta.Elem()), safeInterface(tb.Elem()))
		}
		results = append(results, pair{ta, tb})
		// measure evictions / re-insertions through the hook (statistics only)
		now := map[string]bool{}
		for _, k := range withCache.VerifCachedKeys() {
			now[k] = true
			if evicted[k] {
				reinserted = true
			}
			everCached[k] = true
		}
		for k := range everCached {
			if !now[k] {
				evicted[k] = true
			} else {
				delete(evicted, k)
			}
		}
		if capNow > 0 && len(now) > capNow {
			return fmt.Sprintf("%s: the cache holds %d keys after document #%d", desc, len(now), i)
		}
	}
	// cached keys stay intact: every earlier result is re-checked at the end
	for i, p := range results {
		if dd := gomodel.GoEqual(p.b.Elem(), p.a.Elem(), true); dd != "" {
			return fmt.Sprintf("%s: the result of document #%d changed after later documents were processed: %s (now %+v)", desc, i, dd, safeInterface(p.a.Elem()))
		}
	}
	info.NonTrivial = reinserted
	if len(evicted) > 0 || reinserted {
		info.Class("eviction")
	}
	if reinserted {
		info.Class("reinsertion_after_eviction")
	}
	return ""
}

func (d C20Doc) keyStrings() []string {
	out := make([]string, len(d.Keys))
	for i, k := range d.Keys {
		out[i] = string(k)
	}
	return out
}

var c20Alphabet = [][]byte{[]byte("a"), []byte("b"), []byte("c"), []byte("d"), []byte("e"), []byte("k1"), []byte("k2"), []byte(""), []byte("é"), []byte("a-rather-long-key-that-exceeds-the-small-buffers-0123456789")}

func drawC20(t *rapid.T) any {
	c := &C20Case{
		Cap:    rapid.SampledFrom([]int{0, 1, 2, 3, 5, 8, 64}).Draw(t, "cap"),
		Target: rapid.SampledFrom([]string{"map_iface", "map_int", "iface", "map_struct", "struct_map"}).Draw(t, "target"),
		Via:    rapid.SampledFrom([]string{"direct", "direct", "json", "ubjson", "cborl"}).Draw(t, "via"),
	}
	alphabet := c20Alphabet
	if rapid.IntRange(0, 2).Draw(t, "ownalpha") == 0 {
		// a small alphabet of generated keys per history (one- and two-byte keys
		// over the whole byte range, escapes, long keys): still small enough for
		// hits, evictions and re-insertions
		alphabet = nil
		for i, n := 0, rapid.IntRange(3, 8).Draw(t, "nalpha"); i < n; i++ {
			alphabet = append(alphabet, gen.Key(t, c.Via == "json", "akey"))
		}
		if rapid.IntRange(0, 2).Draw(t, "longkey") == 0 {
			// keys around and far beyond every plausible internal chunk size
			n := rapid.SampledFrom([]int{255, 256, 511, 512, 513, 1023, 1025, 4097, 70000}).Draw(t, "longkeylen")
			alphabet = append(alphabet, bytes.Repeat([]byte("k"), n))
		}
	}
	nd := rapid.IntRange(1, 8).Draw(t, "ndocs")
	for i := 0; i < nd; i++ {
		nk := rapid.IntRange(0, 6).Draw(t, "nkeys")
		d := C20Doc{Keys: [][]byte{}, Vals: []int64{}}
		for j := 0; j < nk; j++ {
			d.Keys = append(d.Keys, rapid.SampledFrom(alphabet).Draw(t, "key"))
			d.Vals = append(d.Vals, int64(rapid.IntRange(-3, 300).Draw(t, "val")))
		}
		c.Docs = append(c.Docs, d)
	}
	if rapid.IntRange(0, 3).Draw(t, "recap") == 0 {
		for i := 0; i < nd; i++ {
			r := -1
			if i > 0 && rapid.IntRange(0, 2).Draw(t, "recapat") == 0 {
				r = rapid.SampledFrom([]int{0, 1, 2, 3, 5, 8, 64}).Draw(t, "recapv")
				if rapid.Bool().Draw(t, "recapsame") {
					r = c.Cap
				}
			}
			c.Recap = append(c.Recap, r)
		}
	}
	if rapid.IntRange(0, 2).Draw(t, "resets") == 0 {
		for i := 0; i < nd; i++ {
			c.Reset = append(c.Reset, i > 0 && rapid.Bool().Draw(t, "resetat"))
		}
	}
	if c.Via != "direct" && rapid.Bool().Draw(t, "chunk") {
		n := rapid.IntRange(1, 5).Draw(t, "ncuts")
		for i := 0; i < n; i++ {
			c.Cuts = append(c.Cuts, rapid.IntRange(1, 60).Draw(t, "cut"))
		}
		sortInts(c.Cuts)
		c.Cuts = dedupInts(c.Cuts)
	}
	return c
}

func init() {
	register(&Property{
		ID:    "C20",
		Rule:  "histories of 1..8 documents whose keys come from a 10-key alphabet, 1 in 3 histories from 3..8 generated keys (one- and two-byte keys over the whole byte range, escapes, long keys) (hits, misses, evictions, re-insertions; empty, non-ASCII and long keys; duplicates within a document) delivered BY REFERENCE from scratch buffers that are overwritten right after every callback / Write — directly and through the json, ubjson and cborl parsers with generated chunkings — into map[string]interface{}, map[string]int, interface{}, reflection-built map[string]struct and struct{M map[string][]int}, with key-cache capacity in {0,1,2,3,5,8,64}, 1 in 4 histories re-configuring it (same, smaller or larger capacity) between documents, 1 in 3 histories calling Reset() on both unfolders before some documents; oracle = after every document the result equals that of an identical unfolder without cache, all earlier results are re-checked at the end (cached keys intact), the cache never exceeds its capacity, no panic; non-trivial = at least one eviction followed by a re-insertion of the evicted key (measured through the recency hook); distinct by case hash",
		New:   func() any { return &C20Case{} },
		Draw:  drawC20,
		Check: checkC20,
	})
}
