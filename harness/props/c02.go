package props

import (
	"fmt"

	"pgregory.net/rapid"

	"verif/harness/gen"
	"verif/harness/model"
)

// C02 — parser output is independent of how the input bytes are chunked.

type C02Case struct {
	Format string   `json:"format"`
	Doc    []byte   `json:"doc"`
	Cuts   []int    `json:"cuts"`
	Empty  []int    `json:"empty_writes,omitempty"` // chunk indices before which an empty Write is issued
	Spans  [][2]int `json:"spans,omitempty"`
	Kind   string   `json:"kind,omitempty"` // valid | stream | mutated
}

func evsEqual(a, b []model.Ev) (int, bool) {
	n := len(a)
	if len(b) < n {
		n = len(b)
	}
	for i := 0; i < n; i++ {
		if !evEqual(a[i], b[i]) {
			return i, false
		}
	}
	if len(a) != len(b) {
		return n, false
	}
	return -1, true
}

func evEqual(a, b model.Ev) bool {
	return a.K == b.K && a.L == b.L && a.T == b.T && a.B == b.B && a.I == b.I && a.U == b.U && a.F == b.F && string(a.S) == string(b.S)
}

func evAt(evs []model.Ev, i int) string {
	if i < len(evs) {
		return evs[i].String()
	}
	return "<end of events>"
}

func checkC02(ci any, info *CaseInfo) string {
	c := ci.(*C02Case)
	cd := codecs[c.Format]
	if cd == nil {
		return "harness: unknown format"
	}
	chunks := gen.Split(c.Doc, c.Cuts)
	info.NonTrivial = gen.CutsSplitToken(c.Cuts, pairsToSpans(c.Spans)) || (len(c.Empty) > 0 && len(chunks) > 1)
	info.Class("format:" + c.Format)
	info.Class("kind:" + c.Kind)
	if info.NonTrivial {
		info.Class("cut_inside_token")
	}

	// reference: whole buffer
	lim := 4*len(c.Doc) + 64 // see model.Recorder.Limit
	whole := &model.Recorder{Limit: lim}
	wo := guard(func() error { return cd.Parse(c.Doc, whole) })
	info.Class("whole:" + wo.Class())

	// schedule 1: ParseReader over a reader that returns exactly the chunks
	rd := &model.Recorder{Limit: lim}
	ro := guard(func() error {
		_, err := cd.ParseReader(&chunkReader{chunks: cloneChunks(chunks)}, rd)
		return err
	})
	if ro.Class() != wo.Class() {
		return fmt.Sprintf("%s: whole-buffer Parse ends with %v but ParseReader over chunks %v ends with %v (doc %q / %x)", c.Format, wo, c.Cuts, ro, trunc(c.Doc), trunc(c.Doc))
	}
	if wo.Class() == "accept" {
		if i, ok := evsEqual(whole.Evs, rd.Evs); !ok {
			return fmt.Sprintf("%s: event #%d differs between whole-buffer Parse (%s) and ParseReader over chunks %v (%s) (doc %q / %x)", c.Format, i, evAt(whole.Evs, i), c.Cuts, evAt(rd.Evs, i), trunc(c.Doc), trunc(c.Doc))
		}
	}

	// schedule 1b: the same reader returns its LAST chunk together with io.EOF
	// (n > 0 and err == io.EOF in one Read, as the io.Reader contract allows)
	if len(c.Doc) > 0 {
		rd2 := &model.Recorder{Limit: lim}
		ro2 := guard(func() error {
			_, err := cd.ParseReader(&chunkReader{chunks: cloneChunks(chunks), eofWithData: true}, rd2)
			return err
		})
		if ro2.Class() != wo.Class() {
			return fmt.Sprintf("%s: whole-buffer Parse ends with %v but ParseReader over chunks %v, the last one returned together with io.EOF, ends with %v (doc %q / %x)", c.Format, wo, c.Cuts, ro2, trunc(c.Doc), trunc(c.Doc))
		}
		if wo.Class() == "accept" {
			if i, ok := evsEqual(whole.Evs, rd2.Evs); !ok {
				return fmt.Sprintf("%s: event #%d differs between whole-buffer Parse (%s) and ParseReader over chunks %v with data+EOF (%s) (doc %q / %x)", c.Format, i, evAt(whole.Evs, i), c.Cuts, evAt(rd2.Evs, i), trunc(c.Doc), trunc(c.Doc))
			}
		}
	}

	// schedule 2: direct Write sequence with optional empty writes; no end of
	// input is signalled, so the events must be a prefix of the whole-buffer ones
	if wo.Class() == "accept" {
		wr := &model.Recorder{Limit: lim}
		p := cd.NewParser(wr)
		empty := map[int]bool{}
		for _, e := range c.Empty {
			empty[e] = true
		}
		var werr error
		wro := guard(func() error {
			for i, ch := range chunks {
				if empty[i] {
					if _, err := p.Write([]byte{}); err != nil {
						return fmt.Errorf("empty write before chunk %d: %w", i, err)
					}
				}
				if _, err := p.Write(append([]byte{}, ch...)); err != nil {
					return fmt.Errorf("write of chunk %d: %w", i, err)
				}
			}
			return nil
		})
		werr = wro.Err
		if wro.Panicked() {
			return fmt.Sprintf("%s: Write sequence %v panics although the whole buffer parses: %v\n%s (doc %q / %x)", c.Format, c.Cuts, wro.Panic, wro.Stack, trunc(c.Doc), trunc(c.Doc))
		}
		if werr != nil {
			return fmt.Sprintf("%s: Write sequence over chunks %v (empty writes %v) fails although the whole buffer parses: %v (doc %q / %x)", c.Format, c.Cuts, c.Empty, werr, trunc(c.Doc), trunc(c.Doc))
		}
		if len(wr.Evs) > len(whole.Evs) {
			return fmt.Sprintf("%s: Write sequence over chunks %v delivers %d events, whole-buffer Parse only %d (doc %x)", c.Format, c.Cuts, len(wr.Evs), len(whole.Evs), trunc(c.Doc))
		}
		if i, ok := evsEqual(whole.Evs[:len(wr.Evs)], wr.Evs); !ok {
			return fmt.Sprintf("%s: event #%d differs between whole-buffer Parse (%s) and a Write sequence over chunks %v (%s) (doc %q / %x)", c.Format, i, evAt(whole.Evs, i), c.Cuts, evAt(wr.Evs, i), trunc(c.Doc), trunc(c.Doc))
		}
	}
	return ""
}

func cloneChunks(ch [][]byte) [][]byte {
	out := make([][]byte, len(ch))
	for i, c := range ch {
		out[i] = append([]byte{}, c...)
	}
	return out
}

func drawC02Doc(t *rapid.T, format string) (Doc, string) {
	switch rapid.IntRange(0, 9).Draw(t, "dockind") {
	case 0, 1: // invalid: mutation of a valid document
		d := validDoc(t, format, false)
		return Doc{Bytes: mutateBytes(t, d.Bytes), Spans: d.Spans}, "mutated"
	case 2: // concatenated stream of container documents
		k := rapid.IntRange(2, 3).Draw(t, "streamk")
		var all Doc
		for i := 0; i < k; i++ {
			d := validDoc(t, format, true)
			off := len(all.Bytes)
			if format == "json" && i > 0 && rapid.Bool().Draw(t, "streamsep") {
				all.Bytes = append(all.Bytes, ' ')
				off++
			}
			all.Bytes = append(all.Bytes, d.Bytes...)
			for _, s := range d.Spans {
				s.Start += off
				s.End += off
				all.Spans = append(all.Spans, s)
			}
		}
		return all, "stream"
	default:
		return validDoc(t, format, false), "valid"
	}
}

func init() {
	register(&Property{
		ID:   "C02",
		Rule: "documents: library-encoder output of gen.Stream, foreign documents of the reference encoders (non-minimal CBOR, typed UBJSON, JSON with escapes/whitespace), concatenated container streams, byte mutations of valid documents (verdict only) x chunkings (single cut, every byte, cuts aimed into token spans, random subsets) x {Parse, ParseReader(chunk reader; also with the last chunk returned together with io.EOF), Write sequence with empty writes}; oracle = the library on the unsplit input; non-trivial = a cut strictly inside a multi-byte token (measured from token spans) or an empty write between chunks; the quick tier also enumerates every single cut and the every-byte schedule of a fixed document set, and a length-field matrix (UBJSON and CBOR: every byte value 0..255, and two-byte lengths holding a marker/break/quote byte, as the length of a key, string, byte string, H number and element count in every container form, cut at each of the first 9 positions); the thorough tier all 2^(n-1) cut subsets of 21 documents of at most 13 bytes; distinct by (doc, cuts) hash",
		New:  func() any { return &C02Case{} },
		Draw: func(t *rapid.T) any {
			c := &C02Case{Format: rapid.SampledFrom(formatNames).Draw(t, "format")}
			d, kind := drawC02Doc(t, c.Format)
			c.Doc, c.Kind, c.Spans = d.Bytes, kind, spansToPairs(d.Spans)
			c.Cuts = gen.Cuts(t, len(c.Doc), d.Spans)
			if rapid.IntRange(0, 3).Draw(t, "emptyw") == 3 {
				n := len(c.Cuts) + 1
				k := rapid.IntRange(1, 3).Draw(t, "emptyk")
				for i := 0; i < k; i++ {
					c.Empty = append(c.Empty, rapid.IntRange(0, n-1).Draw(t, "emptyi"))
				}
			}
			return c
		},
		Check: checkC02,
		Enum:  enumC02,
	})
}

// enumC02: every single cut and the every-byte schedule for a fixed set of
// small documents per format (deterministic, part of the quick tier).
var c02EnumDocs = map[string][]string{
	"json": {
		`{"key":"value","a\nb":[1,2.5e3,true,false,null,"é😀é"],"n":-12345678901}`,
		`[[],{},[{"":""}],"\\\"", 18446744073709551615 ,-9223372036854775808,1e-7]  [1]`,
		`"\néé"`, `123456`, ` nul`, `[1,]`, `{"a" 1}`, `"\ud800"`, `"\u12"`,
		// multi-byte Unicode white space (NBSP, NEL, U+2028, U+3000) and the lone bytes
		// 0x85 / 0xA0 between tokens: not RFC 8259, so only the verdict is compared —
		// it must not depend on a cut falling inside such a character
		"[1,\u00a02\u0085,\u2028{\"a\"\u3000:\u00a0\"b\"\u2029}\u00a0]\u3000", "[1,\x85 2\xa0]", "\u00a0{\"k\"\u00a0:\u00a01}", "[\u2028]",
	},
	"ubjson": {
		"{i\x03abci\x01i\x05helloSi\x05worldi\x02xy[i\x01I\x01\x00l\x00\x01\x00\x00L\x00\x00\x00\x01\x00\x00\x00\x00d\x3f\x80\x00\x00D\x3f\xf0\x00\x00\x00\x00\x00\x00ZTFCa]}",
		"[#i\x03i\x01SU\x03abc[#i\x01Z", "{#i\x02i\x03keyi\x01I\x00\x04abcdT", "[$i#i\x03\x01\x02\x03", "{$S#i\x02i\x02k1i\x02v1i\x02k2i\x02v2",
		"[$[#i\x02$i#i\x01\x05#i\x01Z", "[[$d#i\x01\x3f\x80\x00\x00i\x07]", "Hi\x0512345", "NNSI\x00\x03abc", "[i\x01", "[#S\x01",
		// no-ops in front of elements and member values of every container form
		"[#i\x02Ni\x05NNNU\x07", "[NNi\x01N]", "{i\x01aNNi\x01}", "{#i\x01i\x01aNNT", "N[#i\x01N[#i\x01NZ", "[#i\x01N{#i\x01i\x01kN[NN]",
	},
	"cborl": {
		"\xa2\x63abc\x01\x65hello\x65world", "\x9f\x18\x18\x19\x01\x00\x1a\x00\x01\x00\x00\x1b\x00\x00\x00\x01\x00\x00\x00\x00\x38\xc7\x39\x01\x00\xfa\x3f\x80\x00\x00\xfb\x3f\xf0\x00\x00\x00\x00\x00\x00\xf4\xf5\xf6\xf7\xff",
		"\xbf\x61a\x43\x01\x02\x03\x61b\x82\x60\x80\xff", "\x78\x03abc", "\x5a\x00\x00\x00\x02\x01\x02", "\xb9\x00\x01\x79\x00\x01k\x00", "\x82\x01", "\xc0\x00", "\x1c",
	},
}

func enumC02(emit func(c any) bool) {
	if !enumC02Thorough(emit) {
		return
	}
	for _, format := range formatNames {
		for _, d := range c02EnumDocs[format] {
			doc := []byte(d)
			all := make([]int, 0, len(doc))
			for i := 1; i < len(doc); i++ {
				all = append(all, i)
				if !emit(&C02Case{Format: format, Doc: doc, Cuts: []int{i}, Kind: "enum", Spans: [][2]int{{0, len(doc)}}}) {
					return
				}
			}
			if !emit(&C02Case{Format: format, Doc: doc, Cuts: all, Kind: "enum", Spans: [][2]int{{0, len(doc)}}, Empty: []int{0, 1}}) {
				return
			}
		}
	}
	// length-field matrix: every byte value as (part of) the length of a key, a string
	// and a byte string, in every container form, cut at every position of the header.
	// A length byte that happens to equal a marker, a break or a quote must never be
	// looked at as anything but a length when it arrives at the start of a chunk.
	for _, format := range []string{"ubjson", "cborl"} {
		for _, doc := range lengthMatrixDocs(format) {
			for cut := 1; cut < len(doc) && cut <= 9; cut++ {
				if !emit(&C02Case{Format: format, Doc: doc, Cuts: []int{cut}, Kind: "enum_lenmatrix", Spans: [][2]int{{0, len(doc)}}}) {
					return
				}
			}
		}
	}
}

func lengthMatrixDocs(format string) [][]byte {
	fill := func(n int) []byte {
		b := make([]byte, n)
		for i := range b {
			b[i] = byte('a' + i%26)
		}
		return b
	}
	cat := func(parts ...[]byte) []byte {
		var out []byte
		for _, p := range parts {
			out = append(out, p...)
		}
		return out
	}
	lens := []int{}
	for b := 0; b < 256; b++ {
		lens = append(lens, b)
	}
	for _, m := range []int{'N', 'Z', 'T', 'F', 'i', 'U', 'I', 'l', 'L', 'd', 'D', 'H', 'C', 'S', '[', ']', '{', '}', '#', '$', 0xff, 0x5f, 0x7f, 0x9f, 0xbf, '"', '\\'} {
		lens = append(lens, 256+m, m<<8)
	}
	var docs [][]byte
	for _, n := range lens {
		body := fill(n)
		switch format {
		case "ubjson":
			var l []byte
			switch {
			case n < 128 && n%2 == 0:
				l = []byte{'i', byte(n)}
			case n < 256:
				l = []byte{'U', byte(n)}
			case n < 32768:
				l = []byte{'I', byte(n >> 8), byte(n)}
			default:
				l = []byte{'l', 0, 0, byte(n >> 8), byte(n)}
			}
			docs = append(docs,
				cat([]byte("{"), l, body, []byte("T}")),
				cat([]byte("{#i\x01"), l, body, []byte("T")),
				cat([]byte("[S"), l, body, []byte("]")),
			)
			if n < 300 {
				docs = append(docs,
					cat([]byte("{$T#i\x01"), l, body),
					cat([]byte("S"), l, body),
					cat([]byte("H"), l, fillDigits(n)),
					cat([]byte("{i\x01aS"), l, body, l, body, []byte("Z}")),
				)
			}
			if n > 0 && n < 300 {
				docs = append(docs, cat([]byte("[$Z#"), l), cat([]byte("[$U#"), l, body), cat([]byte("[#"), l, fillMarkers(n, 'T')))
			}
		case "cborl":
			head := func(major byte) []byte {
				switch {
				case n < 24 && n%2 == 0:
					return []byte{major | byte(n)}
				case n < 256:
					return []byte{major | 24, byte(n)}
				case n < 65536 && n%3 != 0:
					return []byte{major | 25, byte(n >> 8), byte(n)}
				default:
					return []byte{major | 26, 0, 0, byte(n >> 8), byte(n)}
				}
			}
			docs = append(docs,
				cat([]byte{0x9f}, head(0x60), body, []byte{0xff}),
				cat([]byte{0xbf}, head(0x60), body, []byte{0x01, 0xff}),
				cat([]byte{0x82}, head(0x00), head(0x20)),
			)
			if n < 300 {
				docs = append(docs,
					cat(head(0x60), body),
					cat(head(0x40), body),
					cat([]byte{0xa1}, head(0x60), body, head(0x40), body),
				)
			}
			if n > 0 && n < 300 {
				docs = append(docs, cat(head(0x80), fillMarkers(n, 0x01)))
			}
		}
	}
	return docs
}

func fillDigits(n int) []byte {
	if n == 0 {
		return nil
	}
	b := make([]byte, n)
	for i := range b {
		b[i] = byte('1' + i%9)
	}
	return b
}

// fillMarkers returns n one-byte values (callers pass a byte that is a complete
// value in their format).
func fillMarkers(n int, v byte) []byte {
	b := make([]byte, n)
	for i := range b {
		b[i] = v
	}
	return b
}
