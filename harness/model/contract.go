package model

import (
	"fmt"

	structform "github.com/elastic/go-structform"
)

// CheckContract verifies the Visitor contract over a recorded history of one or
// more complete values: balanced and properly nested starts/finishes, exactly
// one key before every value inside an object, announced length == delivered
// count, and conformity of elements to an announced BaseType (Byte ≡ Uint8;
// AnyType admits anything). It returns "" or the first breach. complete=false
// tolerates a history that stops early (producer aborted by an error).
func CheckContract(evs []Ev, complete bool) string {
	type frame struct {
		obj       bool
		announced int
		bt        structform.BaseType
		count     int
		wantKey   bool // obj: next event must be a key (or the finish)
		startIdx  int
	}
	var stack []frame
	value := func(i int, e Ev, scalar bool) string {
		if len(stack) == 0 {
			return ""
		}
		f := &stack[len(stack)-1]
		if f.obj {
			if f.wantKey {
				return fmt.Sprintf("event #%d %v: a value inside an object (started at #%d) is not preceded by a key", i, e, f.startIdx)
			}
			f.wantKey = true
		}
		f.count++
		if f.bt != structform.AnyType {
			if !scalar {
				return fmt.Sprintf("event #%d %v: a container inside a container announced with element type %v (started at #%d)", i, e, f.bt, f.startIdx)
			}
			if !conforms(e, f.bt) {
				return fmt.Sprintf("event #%d %v does not conform to the element type %v announced at #%d", i, e, f.bt, f.startIdx)
			}
		}
		return ""
	}
	for i, e := range evs {
		switch e.K {
		case KObjStart, KArrStart:
			if m := value(i, e, false); m != "" {
				return m
			}
			if e.L < -1 {
				return fmt.Sprintf("event #%d %v: announced length below -1", i, e)
			}
			stack = append(stack, frame{obj: e.K == KObjStart, announced: e.L, bt: structform.BaseType(e.T), wantKey: e.K == KObjStart, startIdx: i})
		case KObjEnd, KArrEnd:
			if len(stack) == 0 {
				return fmt.Sprintf("event #%d %v: finish without a matching start", i, e)
			}
			f := stack[len(stack)-1]
			if f.obj != (e.K == KObjEnd) {
				return fmt.Sprintf("event #%d %v closes the container started at #%d of the other kind", i, e, f.startIdx)
			}
			if f.obj && !f.wantKey {
				return fmt.Sprintf("event #%d %v: object (started at #%d) finished after a key without a value", i, e, f.startIdx)
			}
			if f.announced >= 0 && f.count != f.announced {
				return fmt.Sprintf("event #%d %v: container started at #%d announced %d elements but delivered %d", i, e, f.startIdx, f.announced, f.count)
			}
			stack = stack[:len(stack)-1]
		case KKey, KKeyRef:
			if len(stack) == 0 || !stack[len(stack)-1].obj {
				return fmt.Sprintf("event #%d %v: key outside an object", i, e)
			}
			f := &stack[len(stack)-1]
			if !f.wantKey {
				return fmt.Sprintf("event #%d %v: two keys in a row (object started at #%d)", i, e, f.startIdx)
			}
			f.wantKey = false
		default:
			if m := value(i, e, true); m != "" {
				return m
			}
		}
	}
	if complete && len(stack) > 0 {
		return fmt.Sprintf("the stream ends with %d containers still open (innermost started at #%d)", len(stack), stack[len(stack)-1].startIdx)
	}
	return ""
}

func conforms(e Ev, bt structform.BaseType) bool {
	switch bt {
	case structform.AnyType:
		return true
	case structform.ByteType, structform.Uint8Type:
		return e.K == KByte || e.K == KU8
	case structform.StringType:
		return e.K == KStr || e.K == KStrRef
	case structform.BoolType:
		return e.K == KBool
	case structform.ZeroType:
		return e.K == KNil
	case structform.IntType:
		return e.K == KInt
	case structform.Int8Type:
		return e.K == KI8
	case structform.Int16Type:
		return e.K == KI16
	case structform.Int32Type:
		return e.K == KI32
	case structform.Int64Type:
		return e.K == KI64
	case structform.UintType:
		return e.K == KUint
	case structform.Uint16Type:
		return e.K == KU16
	case structform.Uint32Type:
		return e.K == KU32
	case structform.Uint64Type:
		return e.K == KU64
	case structform.Float32Type:
		return e.K == KF32
	case structform.Float64Type:
		return e.K == KF64
	}
	return false
}
