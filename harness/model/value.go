package model

import (
	"bytes"
	"fmt"
	"math"
	"math/big"
	"sort"
	"unicode/utf8"
)

// VK is the kind of a value node.
type VK uint8

const (
	VNull VK = iota
	VBool
	VInt
	VFloat
	VStr
	VArr
	VObj
)

func (k VK) String() string {
	return [...]string{"null", "bool", "int", "float", "string", "array", "object"}[k]
}

// V is the harness' value tree.
type V struct {
	K    VK
	B    bool
	N    *big.Int // VInt
	Bits uint64   // VFloat: IEEE bits, 32 or 64 wide
	F32  bool     // VFloat: width 32
	S    []byte   // VStr
	A    []V      // VArr
	O    []Member // VObj (ordered, duplicates kept)
	// Unordered marks an object whose members come from a Go map: compared as
	// key-sorted group.
	Unordered bool
	// MayDec (UBJSON): this integer sits in a typed unsigned container that holds
	// a value above MaxInt64, so it may arrive as its decimal string.
	MayDec bool
	// Struct marks an object that stands for a Go struct (fold model): its
	// members address struct fields, unknown members may be added to it.
	Struct bool
	// FieldNames (with Struct, fold model only): every member name the struct
	// type knows, whether or not the value has that member (omitted and ignored
	// fields, fields of inlined structs); nil when the struct inlines a map or an
	// interface (then no name is certainly unknown).
	FieldNames []string
	// Lit (JSON only): the number literal this node was written as / read from.
	Lit string
}

type Member struct {
	Key []byte
	Val V
}

func Null() V                { return V{K: VNull} }
func Bool(b bool) V          { return V{K: VBool, B: b} }
func Int(i int64) V          { return V{K: VInt, N: big.NewInt(i)} }
func Uint(u uint64) V        { return V{K: VInt, N: new(big.Int).SetUint64(u)} }
func BigInt(n *big.Int) V    { return V{K: VInt, N: n} }
func Float64(f float64) V    { return V{K: VFloat, Bits: math.Float64bits(f)} }
func Float64Bits(b uint64) V { return V{K: VFloat, Bits: b} }
func Float32Bits(b uint32) V { return V{K: VFloat, Bits: uint64(b), F32: true} }
func Str(s []byte) V         { return V{K: VStr, S: append([]byte{}, s...)} }
func Arr(a ...V) V           { return V{K: VArr, A: a} }
func Obj(m ...Member) V      { return V{K: VObj, O: m} }
func (v V) Float() float64 {
	if v.F32 {
		return float64(math.Float32frombits(uint32(v.Bits)))
	}
	return math.Float64frombits(v.Bits)
}

func (v V) String() string {
	var b bytes.Buffer
	v.write(&b, 0)
	return b.String()
}

func (v V) write(b *bytes.Buffer, depth int) {
	if b.Len() > 4096 {
		b.WriteString("…")
		return
	}
	switch v.K {
	case VNull:
		b.WriteString("null")
	case VBool:
		fmt.Fprintf(b, "%v", v.B)
	case VInt:
		b.WriteString(v.N.String())
	case VFloat:
		if v.F32 {
			fmt.Fprintf(b, "f32(%v/%#x)", v.Float(), v.Bits)
		} else {
			fmt.Fprintf(b, "f64(%v/%#x)", v.Float(), v.Bits)
		}
	case VStr:
		fmt.Fprintf(b, "%q", v.S)
	case VArr:
		b.WriteByte('[')
		for i, e := range v.A {
			if i > 0 {
				b.WriteByte(',')
			}
			e.write(b, depth+1)
		}
		b.WriteByte(']')
	case VObj:
		if v.Unordered {
			b.WriteString("u")
		}
		b.WriteByte('{')
		for i, m := range v.O {
			if i > 0 {
				b.WriteByte(',')
			}
			fmt.Fprintf(b, "%q:", m.Key)
			m.Val.write(b, depth+1)
		}
		b.WriteByte('}')
	}
}

// Tree builds the value described by a complete event stream (exactly one
// value). Extended events are expanded; typed map events become unordered
// objects. A malformed stream yields an error.
func Tree(evs []Ev) (V, error) {
	p := &treeBuilder{evs: evs}
	v, err := p.value()
	if err != nil {
		return V{}, err
	}
	if p.pos != len(evs) {
		return V{}, fmt.Errorf("malformed stream: %d trailing events after the value (first: %v)", len(evs)-p.pos, evs[p.pos])
	}
	return v, nil
}

// Trees builds a sequence of values from a stream that holds k complete values.
func Trees(evs []Ev) ([]V, error) {
	p := &treeBuilder{evs: evs}
	var out []V
	for p.pos < len(evs) {
		v, err := p.value()
		if err != nil {
			return out, err
		}
		out = append(out, v)
	}
	return out, nil
}

type treeBuilder struct {
	evs []Ev
	pos int
}

func scalarV(e Ev) (V, bool) {
	switch e.K {
	case KNil:
		return Null(), true
	case KBool:
		return Bool(e.B), true
	case KStr, KStrRef:
		return Str(e.S), true
	case KI8, KI16, KI32, KI64, KInt:
		return Int(e.I), true
	case KByte, KU8, KU16, KU32, KU64, KUint:
		return Uint(e.U), true
	case KF32:
		return Float32Bits(uint32(e.F)), true
	case KF64:
		return Float64Bits(e.F), true
	}
	return V{}, false
}

func (p *treeBuilder) value() (V, error) {
	if p.pos >= len(p.evs) {
		return V{}, fmt.Errorf("malformed stream: value expected at end of stream (event #%d)", p.pos)
	}
	e := p.evs[p.pos]
	if v, ok := scalarV(e); ok {
		p.pos++
		return v, nil
	}
	switch {
	case e.K == KBytes:
		p.pos++
		a := make([]V, len(e.S))
		for i, b := range e.S {
			a[i] = Uint(uint64(b))
		}
		return V{K: VArr, A: a}, nil
	case e.IsExtArr():
		p.pos++
		a := make([]V, len(e.E))
		for i, el := range e.E {
			v, ok := scalarV(el)
			if !ok {
				return V{}, fmt.Errorf("harness: typed array with non-scalar element %v", el)
			}
			a[i] = v
		}
		markMayDec(e, a)
		return V{K: VArr, A: a}, nil
	case e.IsExtObj():
		p.pos++
		o := make([]Member, len(e.E))
		for i, el := range e.E {
			v, ok := scalarV(el)
			if !ok {
				return V{}, fmt.Errorf("harness: typed map with non-scalar element %v", el)
			}
			o[i] = Member{Key: append([]byte{}, e.Keys[i]...), Val: v}
		}
		if hasBigUint(e) {
			for i := range o {
				o[i].Val.MayDec = true
			}
		}
		return V{K: VObj, O: o, Unordered: true}, nil
	case e.K == KArrStart:
		p.pos++
		v := V{K: VArr, A: []V{}}
		for {
			if p.pos >= len(p.evs) {
				return V{}, fmt.Errorf("malformed stream: array started at an earlier event is never finished")
			}
			if p.evs[p.pos].K == KArrEnd {
				p.pos++
				return v, nil
			}
			el, err := p.value()
			if err != nil {
				return V{}, err
			}
			v.A = append(v.A, el)
		}
	case e.K == KObjStart:
		p.pos++
		v := V{K: VObj, O: []Member{}}
		for {
			if p.pos >= len(p.evs) {
				return V{}, fmt.Errorf("malformed stream: object started at an earlier event is never finished")
			}
			k := p.evs[p.pos]
			if k.K == KObjEnd {
				p.pos++
				return v, nil
			}
			if k.K != KKey && k.K != KKeyRef {
				return V{}, fmt.Errorf("malformed stream: event #%d %v inside an object where a key is expected", p.pos, k)
			}
			p.pos++
			el, err := p.value()
			if err != nil {
				return V{}, err
			}
			v.O = append(v.O, Member{Key: append([]byte{}, k.S...), Val: el})
		}
	}
	return V{}, fmt.Errorf("malformed stream: event #%d %v where a value is expected", p.pos, e)
}

// Rules selects the documented representation changes a value may undergo
// (DESIGN.md §3.1). The zero value demands exact equality (integers
// numerically, floats width+bits, strings byte for byte, member order).
type Rules struct {
	// JSONFloat: floats travelled through decimal text; the observed number n
	// (int or float64) must satisfy n == f (float64) or float32(n) == f
	// (float32); -0 ≡ 0.
	JSONFloat bool
	// JSONStrings: every maximal run of invalid UTF-8 in an expected string/key
	// is replaced by at least one U+FFFD.
	JSONStrings bool
	// NonFiniteNull: a non-finite expected float arrives as null.
	NonFiniteNull bool
	// UBJSONBigUint: an expected integer above MaxInt64 arrives as its decimal
	// string; so may integers marked MayDec.
	UBJSONBigUint bool
	// AnyFloatWidth: float32 and float64 of the same numeric value are equal
	// (used for transcoding through JSON, which erases the width).
	AnyFloatWidth bool
	// AllUnordered: every object is compared as a multiset of members (used
	// when both sides come from Go map iteration).
	AllUnordered bool
	// AnyNaN: all NaNs of one width are the same value (payload and sign are
	// not part of the value). Used where values pass through Go float
	// conversions, which quiet signalling NaNs.
	AnyNaN bool
}

var maxInt64 = big.NewInt(math.MaxInt64)

// Diff returns "" when got equals exp under the rules, else a message naming
// the first difference.
func Diff(exp, got V, r Rules) string {
	return diff(exp, got, r, "$")
}

func sortedMembers(o []Member) []Member {
	c := append([]Member(nil), o...)
	sort.SliceStable(c, func(i, j int) bool { return bytes.Compare(c[i].Key, c[j].Key) < 0 })
	return c
}

// SanitizeUTF8 replaces every invalid byte by U+FFFD and then collapses runs of
// U+FFFD into one (so "≥1 per maximal invalid run" compares equal on both
// sides).
func SanitizeUTF8(s []byte) []byte {
	out := make([]byte, 0, len(s))
	lastRepl := false
	for i := 0; i < len(s); {
		r, sz := utf8.DecodeRune(s[i:])
		if r == utf8.RuneError {
			// invalid byte (sz==1) or a literal U+FFFD (sz==3)
			if !lastRepl {
				out = append(out, "\ufffd"...)
			}
			lastRepl = true
			i += sz
			continue
		}
		lastRepl = false
		out = append(out, s[i:i+sz]...)
		i += sz
	}
	return out
}

// ReplaceInvalidEach is the exact JSON spelling of a string: every invalid
// byte becomes one U+FFFD (identity when the rule is off).
func ReplaceInvalidEach(s []byte, r Rules) []byte {
	if !r.JSONStrings || utf8.Valid(s) {
		return s
	}
	out := make([]byte, 0, len(s)+8)
	for i := 0; i < len(s); {
		c, sz := utf8.DecodeRune(s[i:])
		if c == utf8.RuneError && sz == 1 {
			out = append(out, "\ufffd"...)
		} else {
			out = append(out, s[i:i+sz]...)
		}
		i += sz
	}
	return out
}

func strEq(exp, got []byte, r Rules) bool {
	if !r.JSONStrings {
		return bytes.Equal(exp, got)
	}
	if !utf8.Valid(got) {
		return false
	}
	if utf8.Valid(exp) {
		return bytes.Equal(exp, got)
	}
	return bytes.Equal(SanitizeUTF8(exp), SanitizeUTF8(got))
}

func isNonFinite(v V) bool {
	f := v.Float()
	return math.IsNaN(f) || math.IsInf(f, 0)
}

func diff(exp, got V, r Rules, path string) string {
	// representation changes that alter the kind
	if exp.K == VFloat && r.NonFiniteNull && isNonFinite(exp) {
		if got.K == VNull {
			return ""
		}
		return fmt.Sprintf("%s: expected null (non-finite float %v), got %v", path, exp, got)
	}
	if exp.K == VInt && r.UBJSONBigUint && got.K == VStr && (exp.N.Cmp(maxInt64) > 0 || exp.MayDec) {
		if string(got.S) == exp.N.String() {
			return ""
		}
		return fmt.Sprintf("%s: expected decimal string of %v, got %v", path, exp, got)
	}
	if exp.K == VInt && r.UBJSONBigUint && exp.N.Cmp(maxInt64) > 0 {
		return fmt.Sprintf("%s: expected decimal string of %v, got %v", path, exp, got)
	}
	if exp.K == VFloat && r.JSONFloat {
		return diffJSONFloat(exp, got, path)
	}
	if exp.K != got.K {
		return fmt.Sprintf("%s: expected %v, got %v", path, exp, got)
	}
	switch exp.K {
	case VNull:
		return ""
	case VBool:
		if exp.B != got.B {
			return fmt.Sprintf("%s: expected %v, got %v", path, exp, got)
		}
	case VInt:
		if exp.N.Cmp(got.N) != 0 {
			return fmt.Sprintf("%s: expected %v, got %v", path, exp, got)
		}
	case VFloat:
		if r.AnyFloatWidth {
			ef, gf := exp.Float(), got.Float()
			if ef == gf || (math.IsNaN(ef) && math.IsNaN(gf)) {
				return ""
			}
			return fmt.Sprintf("%s: expected %v, got %v", path, exp, got)
		}
		if r.AnyNaN && exp.F32 == got.F32 && math.IsNaN(exp.Float()) && math.IsNaN(got.Float()) {
			return ""
		}
		if exp.F32 != got.F32 || exp.Bits != got.Bits {
			return fmt.Sprintf("%s: expected %v, got %v", path, exp, got)
		}
	case VStr:
		if !strEq(exp.S, got.S, r) {
			return fmt.Sprintf("%s: expected %v, got %v", path, exp, got)
		}
	case VArr:
		if len(exp.A) != len(got.A) {
			return fmt.Sprintf("%s: expected array of %d elements, got %d: expected %v, got %v", path, len(exp.A), len(got.A), exp, got)
		}
		for i := range exp.A {
			if d := diff(exp.A[i], got.A[i], r, fmt.Sprintf("%s[%d]", path, i)); d != "" {
				return d
			}
		}
	case VObj:
		if len(exp.O) != len(got.O) {
			return fmt.Sprintf("%s: expected object of %d members, got %d: expected %v, got %v", path, len(exp.O), len(got.O), exp, got)
		}
		if exp.Unordered || got.Unordered || r.AllUnordered {
			// members from a Go map: compare as a multiset (greedy matching;
			// keys are distinct unless sanitising made them collide)
			used := make([]bool, len(got.O))
			for _, em := range sortedMembers(exp.O) {
				found := false
				firstDiff := ""
				// pass 0 prefers the exact spelling (one U+FFFD per invalid
				// byte), pass 1 accepts any spelling the rule allows; this keeps
				// the greedy matching from stealing a partner that only one
				// member can take
				for pass := 0; pass < 2 && !found; pass++ {
					for j, gm := range got.O {
						if used[j] || !strEq(em.Key, gm.Key, r) {
							continue
						}
						if pass == 0 && !bytes.Equal(ReplaceInvalidEach(em.Key, r), gm.Key) {
							continue
						}
						d := diff(em.Val, gm.Val, r, fmt.Sprintf("%s.%q", path, em.Key))
						if d == "" {
							used[j], found = true, true
							break
						}
						if firstDiff == "" {
							firstDiff = d
						}
					}
				}
				if !found {
					if firstDiff != "" {
						return firstDiff
					}
					return fmt.Sprintf("%s: member %q missing: expected %v, got %v", path, em.Key, exp, got)
				}
			}
			return ""
		}
		for i := range exp.O {
			if !strEq(exp.O[i].Key, got.O[i].Key, r) {
				return fmt.Sprintf("%s: member #%d: expected key %q, got %q", path, i, exp.O[i].Key, got.O[i].Key)
			}
			if d := diff(exp.O[i].Val, got.O[i].Val, r, fmt.Sprintf("%s.%q", path, exp.O[i].Key)); d != "" {
				return d
			}
		}
	}
	return ""
}

func diffJSONFloat(exp, got V, path string) string {
	ef := exp.Float()
	if isNonFinite(exp) {
		return fmt.Sprintf("%s: non-finite float %v cannot be represented in JSON, got %v", path, exp, got)
	}
	switch got.K {
	case VFloat:
		gf := got.Float()
		if exp.F32 {
			if float32(gf) == float32(ef) {
				return ""
			}
		} else if gf == ef {
			return ""
		}
	case VInt:
		bf := new(big.Float).SetInt(got.N)
		if exp.F32 {
			g64, _ := bf.Float64()
			if float32(g64) == float32(ef) {
				return ""
			}
		} else if bf.Cmp(big.NewFloat(ef)) == 0 {
			return ""
		}
	}
	return fmt.Sprintf("%s: expected a number equal to %v, got %v", path, exp, got)
}

func hasBigUint(e Ev) bool {
	switch e.ElemKind() {
	case KU16, KU32, KU64, KUint:
		for _, el := range e.E {
			if el.U > math.MaxInt64 {
				return true
			}
		}
	}
	return false
}

func markMayDec(e Ev, a []V) {
	if hasBigUint(e) {
		for i := range a {
			a[i].MayDec = true
		}
	}
}
