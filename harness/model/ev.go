// Package model holds the harness' own data model of structform event streams:
// plain-data events (Ev), a recorder, a replayer, and the value tree V with the
// semantic comparison rules of DESIGN.md §3.1.
package model

import (
	"fmt"
	"math"

	structform "github.com/elastic/go-structform"
)

// Event kinds (plain data, JSON serialisable).
const (
	KObjStart = "os"
	KObjEnd   = "oe"
	KKey      = "k"
	KKeyRef   = "kr"
	KArrStart = "as"
	KArrEnd   = "ae"
	KNil      = "nil"
	KBool     = "b"
	KStr      = "s"
	KStrRef   = "sr"
	KI8       = "i8"
	KI16      = "i16"
	KI32      = "i32"
	KI64      = "i64"
	KInt      = "int"
	KByte     = "byte"
	KU8       = "u8"
	KU16      = "u16"
	KU32      = "u32"
	KU64      = "u64"
	KUint     = "uint"
	KF32      = "f32"
	KF64      = "f64"
	// extended events: "a:"+scalar kind (typed array), "o:"+scalar kind (typed
	// map), "bytes" (OnBytes).
	KBytes = "bytes"
)

// ScalarKinds lists every basic scalar event kind.
var ScalarKinds = []string{KNil, KBool, KStr, KStrRef, KI8, KI16, KI32, KI64, KInt, KByte, KU8, KU16, KU32, KU64, KUint, KF32, KF64}

// ArrElemKinds are the element kinds of the 15 typed array events (OnBytes is
// spelled "bytes"; "a:u8" is OnUint8Array).
var ArrElemKinds = []string{KBool, KStr, KI8, KI16, KI32, KI64, KInt, KU8, KU16, KU32, KU64, KUint, KF32, KF64}

// ObjElemKinds are the element kinds of the 14 typed map events.
var ObjElemKinds = []string{KBool, KStr, KI8, KI16, KI32, KI64, KInt, KU8, KU16, KU32, KU64, KUint, KF32, KF64}

// Ev is one event as plain data.
type Ev struct {
	K string `json:"k"`
	L int    `json:"l,omitempty"` // announced length (starts)
	T uint8  `json:"t,omitempty"` // announced BaseType (starts)
	B bool   `json:"b,omitempty"`
	I int64  `json:"i,omitempty"`
	U uint64 `json:"u,omitempty"`
	F uint64 `json:"f,omitempty"` // float bits (32 or 64 wide)
	S []byte `json:"s,omitempty"`
	// extended events: elements as scalar events; Keys parallel to E for maps.
	E    []Ev     `json:"e,omitempty"`
	Keys [][]byte `json:"ks,omitempty"`
}

func (e Ev) String() string {
	switch e.K {
	case KObjStart, KArrStart:
		return fmt.Sprintf("%s(%d,%v)", e.K, e.L, structform.BaseType(e.T))
	case KObjEnd, KArrEnd, KNil:
		return e.K
	case KKey, KKeyRef, KStr, KStrRef:
		return fmt.Sprintf("%s(%q)", e.K, e.S)
	case KBool:
		return fmt.Sprintf("b(%v)", e.B)
	case KI8, KI16, KI32, KI64, KInt:
		return fmt.Sprintf("%s(%d)", e.K, e.I)
	case KByte, KU8, KU16, KU32, KU64, KUint:
		return fmt.Sprintf("%s(%d)", e.K, e.U)
	case KF32:
		return fmt.Sprintf("f32(%v/%#x)", math.Float32frombits(uint32(e.F)), e.F)
	case KF64:
		return fmt.Sprintf("f64(%v/%#x)", math.Float64frombits(e.F), e.F)
	}
	if e.K == KBytes {
		return fmt.Sprintf("bytes(%x)", e.S)
	}
	return fmt.Sprintf("%s[%d]", e.K, len(e.E))
}

// IsExt reports whether e is an extended (typed array / typed map / bytes) event.
func (e Ev) IsExt() bool {
	return e.K == KBytes || (len(e.K) > 2 && (e.K[:2] == "a:" || e.K[:2] == "o:"))
}

func (e Ev) IsExtArr() bool { return e.K == KBytes || (len(e.K) > 2 && e.K[:2] == "a:") }
func (e Ev) IsExtObj() bool { return len(e.K) > 2 && e.K[:2] == "o:" }
func (e Ev) ElemKind() string {
	if e.K == KBytes {
		return KByte
	}
	return e.K[2:]
}

// BaseTypeOf maps a scalar event kind to the structform.BaseType an adapter
// announces for a typed container of it.
func BaseTypeOf(kind string) structform.BaseType {
	switch kind {
	case KBool:
		return structform.BoolType
	case KStr, KStrRef:
		return structform.StringType
	case KI8:
		return structform.Int8Type
	case KI16:
		return structform.Int16Type
	case KI32:
		return structform.Int32Type
	case KI64:
		return structform.Int64Type
	case KInt:
		return structform.IntType
	case KByte:
		return structform.ByteType
	case KU8:
		return structform.Uint8Type
	case KU16:
		return structform.Uint16Type
	case KU32:
		return structform.Uint32Type
	case KU64:
		return structform.Uint64Type
	case KUint:
		return structform.UintType
	case KF32:
		return structform.Float32Type
	case KF64:
		return structform.Float64Type
	case KNil:
		return structform.ZeroType
	}
	return structform.AnyType
}

// Expand returns the basic-event expansion of an extended event (and the event
// itself for basic events). Map expansion follows the Keys order.
func Expand(e Ev) []Ev {
	switch {
	case e.K == KBytes:
		out := make([]Ev, 0, len(e.S)+2)
		out = append(out, Ev{K: KArrStart, L: len(e.S), T: uint8(structform.ByteType)})
		for _, b := range e.S {
			out = append(out, Ev{K: KByte, U: uint64(b)})
		}
		return append(out, Ev{K: KArrEnd})
	case e.IsExtArr():
		out := make([]Ev, 0, len(e.E)+2)
		out = append(out, Ev{K: KArrStart, L: len(e.E), T: uint8(BaseTypeOf(e.ElemKind()))})
		out = append(out, e.E...)
		return append(out, Ev{K: KArrEnd})
	case e.IsExtObj():
		out := make([]Ev, 0, 2*len(e.E)+2)
		out = append(out, Ev{K: KObjStart, L: len(e.E), T: uint8(BaseTypeOf(e.ElemKind()))})
		for i, el := range e.E {
			out = append(out, Ev{K: KKey, S: e.Keys[i]}, el)
		}
		return append(out, Ev{K: KObjEnd})
	}
	return []Ev{e}
}

// ExpandAll expands every extended event of a stream.
func ExpandAll(evs []Ev) []Ev {
	out := make([]Ev, 0, len(evs))
	for _, e := range evs {
		if e.IsExt() {
			out = append(out, Expand(e)...)
		} else {
			out = append(out, e)
		}
	}
	return out
}

// ApplyOne issues a single event on an ExtVisitor.
func ApplyOne(e Ev, v structform.ExtVisitor) error {
	switch e.K {
	case KObjStart:
		return v.OnObjectStart(e.L, structform.BaseType(e.T))
	case KObjEnd:
		return v.OnObjectFinished()
	case KKey:
		return v.OnKey(string(e.S))
	case KKeyRef:
		return v.OnKeyRef(cp(e.S))
	case KArrStart:
		return v.OnArrayStart(e.L, structform.BaseType(e.T))
	case KArrEnd:
		return v.OnArrayFinished()
	case KNil:
		return v.OnNil()
	case KBool:
		return v.OnBool(e.B)
	case KStr:
		return v.OnString(string(e.S))
	case KStrRef:
		return v.OnStringRef(cp(e.S))
	case KI8:
		return v.OnInt8(int8(e.I))
	case KI16:
		return v.OnInt16(int16(e.I))
	case KI32:
		return v.OnInt32(int32(e.I))
	case KI64:
		return v.OnInt64(e.I)
	case KInt:
		return v.OnInt(int(e.I))
	case KByte:
		return v.OnByte(byte(e.U))
	case KU8:
		return v.OnUint8(uint8(e.U))
	case KU16:
		return v.OnUint16(uint16(e.U))
	case KU32:
		return v.OnUint32(uint32(e.U))
	case KU64:
		return v.OnUint64(e.U)
	case KUint:
		return v.OnUint(uint(e.U))
	case KF32:
		return v.OnFloat32(math.Float32frombits(uint32(e.F)))
	case KF64:
		return v.OnFloat64(math.Float64frombits(e.F))
	case KBytes:
		return v.OnBytes(cp(e.S))
	}
	if e.IsExtArr() {
		return applyExtArr(e, v)
	}
	if e.IsExtObj() {
		return applyExtObj(e, v)
	}
	return fmt.Errorf("harness: unknown event kind %q", e.K)
}

func cp(b []byte) []byte {
	if b == nil {
		return []byte{}
	}
	return append([]byte(nil), b...)
}

func applyExtArr(e Ev, v structform.ExtVisitor) error {
	n := len(e.E)
	switch e.ElemKind() {
	case KBool:
		a := make([]bool, n)
		for i, x := range e.E {
			a[i] = x.B
		}
		return v.OnBoolArray(a)
	case KStr:
		a := make([]string, n)
		for i, x := range e.E {
			a[i] = string(x.S)
		}
		return v.OnStringArray(a)
	case KI8:
		a := make([]int8, n)
		for i, x := range e.E {
			a[i] = int8(x.I)
		}
		return v.OnInt8Array(a)
	case KI16:
		a := make([]int16, n)
		for i, x := range e.E {
			a[i] = int16(x.I)
		}
		return v.OnInt16Array(a)
	case KI32:
		a := make([]int32, n)
		for i, x := range e.E {
			a[i] = int32(x.I)
		}
		return v.OnInt32Array(a)
	case KI64:
		a := make([]int64, n)
		for i, x := range e.E {
			a[i] = x.I
		}
		return v.OnInt64Array(a)
	case KInt:
		a := make([]int, n)
		for i, x := range e.E {
			a[i] = int(x.I)
		}
		return v.OnIntArray(a)
	case KU8:
		a := make([]uint8, n)
		for i, x := range e.E {
			a[i] = uint8(x.U)
		}
		return v.OnUint8Array(a)
	case KU16:
		a := make([]uint16, n)
		for i, x := range e.E {
			a[i] = uint16(x.U)
		}
		return v.OnUint16Array(a)
	case KU32:
		a := make([]uint32, n)
		for i, x := range e.E {
			a[i] = uint32(x.U)
		}
		return v.OnUint32Array(a)
	case KU64:
		a := make([]uint64, n)
		for i, x := range e.E {
			a[i] = x.U
		}
		return v.OnUint64Array(a)
	case KUint:
		a := make([]uint, n)
		for i, x := range e.E {
			a[i] = uint(x.U)
		}
		return v.OnUintArray(a)
	case KF32:
		a := make([]float32, n)
		for i, x := range e.E {
			a[i] = math.Float32frombits(uint32(x.F))
		}
		return v.OnFloat32Array(a)
	case KF64:
		a := make([]float64, n)
		for i, x := range e.E {
			a[i] = math.Float64frombits(x.F)
		}
		return v.OnFloat64Array(a)
	}
	return fmt.Errorf("harness: unknown typed array kind %q", e.K)
}

func applyExtObj(e Ev, v structform.ExtVisitor) error {
	n := len(e.E)
	switch e.ElemKind() {
	case KBool:
		m := make(map[string]bool, n)
		for i, x := range e.E {
			m[string(e.Keys[i])] = x.B
		}
		return v.OnBoolObject(m)
	case KStr:
		m := make(map[string]string, n)
		for i, x := range e.E {
			m[string(e.Keys[i])] = string(x.S)
		}
		return v.OnStringObject(m)
	case KI8:
		m := make(map[string]int8, n)
		for i, x := range e.E {
			m[string(e.Keys[i])] = int8(x.I)
		}
		return v.OnInt8Object(m)
	case KI16:
		m := make(map[string]int16, n)
		for i, x := range e.E {
			m[string(e.Keys[i])] = int16(x.I)
		}
		return v.OnInt16Object(m)
	case KI32:
		m := make(map[string]int32, n)
		for i, x := range e.E {
			m[string(e.Keys[i])] = int32(x.I)
		}
		return v.OnInt32Object(m)
	case KI64:
		m := make(map[string]int64, n)
		for i, x := range e.E {
			m[string(e.Keys[i])] = x.I
		}
		return v.OnInt64Object(m)
	case KInt:
		m := make(map[string]int, n)
		for i, x := range e.E {
			m[string(e.Keys[i])] = int(x.I)
		}
		return v.OnIntObject(m)
	case KU8:
		m := make(map[string]uint8, n)
		for i, x := range e.E {
			m[string(e.Keys[i])] = uint8(x.U)
		}
		return v.OnUint8Object(m)
	case KU16:
		m := make(map[string]uint16, n)
		for i, x := range e.E {
			m[string(e.Keys[i])] = uint16(x.U)
		}
		return v.OnUint16Object(m)
	case KU32:
		m := make(map[string]uint32, n)
		for i, x := range e.E {
			m[string(e.Keys[i])] = uint32(x.U)
		}
		return v.OnUint32Object(m)
	case KU64:
		m := make(map[string]uint64, n)
		for i, x := range e.E {
			m[string(e.Keys[i])] = x.U
		}
		return v.OnUint64Object(m)
	case KUint:
		m := make(map[string]uint, n)
		for i, x := range e.E {
			m[string(e.Keys[i])] = uint(x.U)
		}
		return v.OnUintObject(m)
	case KF32:
		m := make(map[string]float32, n)
		for i, x := range e.E {
			m[string(e.Keys[i])] = math.Float32frombits(uint32(x.F))
		}
		return v.OnFloat32Object(m)
	case KF64:
		m := make(map[string]float64, n)
		for i, x := range e.E {
			m[string(e.Keys[i])] = math.Float64frombits(x.F)
		}
		return v.OnFloat64Object(m)
	}
	return fmt.Errorf("harness: unknown typed map kind %q", e.K)
}

// Apply replays a stream into v (wrapped by EnsureExtVisitor) and stops at the
// first error, as a caller would. It returns the number of events issued
// without error and the error.
func Apply(evs []Ev, v structform.Visitor) (int, error) {
	ev := structform.EnsureExtVisitor(v)
	for i, e := range evs {
		if err := ApplyOne(e, ev); err != nil {
			return i, err
		}
	}
	return len(evs), nil
}

// ApplyScribble is Apply for a producer that reuses ONE buffer for every
// by-reference payload (the same address each time, as a parser's literal
// buffer or a refilled read buffer) and overwrites it as soon as the callback
// returns: by-reference bytes are only valid during the callback.
func ApplyScribble(evs []Ev, v structform.Visitor) (int, error) {
	ev := structform.EnsureExtVisitor(v)
	scratch := make([]byte, 0, 256)
	for i, e := range evs {
		var err error
		switch e.K {
		case KKeyRef:
			scratch = append(scratch[:0], e.S...)
			err = ev.OnKeyRef(scratch)
		case KStrRef:
			scratch = append(scratch[:0], e.S...)
			err = ev.OnStringRef(scratch)
		default:
			err = ApplyOne(e, ev)
		}
		for j := range scratch {
			scratch[j] = 'X'
		}
		if err != nil {
			return i, err
		}
	}
	return len(evs), nil
}
