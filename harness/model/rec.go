package model

import (
	"fmt"
	"math"

	structform "github.com/elastic/go-structform"
)

// Recorder is a plain structform.Visitor (no extended interfaces) that records
// every event, copying strings inside the callback.
type Recorder struct {
	Evs []Ev
	// Hook, when set, is called before an event is recorded; a non-nil error is
	// returned to the producer and the event is not recorded.
	Hook func(idx int, e Ev) error
	N    int // number of events seen (recorded or refused)
	// Limit > 0: events beyond Limit are refused with ErrTooManyEvents (keeps an
	// amplifying input — see the open finding on UBJSON zero-payload typed
	// containers — from exhausting memory in checks that record arbitrary bytes).
	Limit int
	// kept holds the strings exactly as they were handed to OnString/OnKey: a Go
	// string is immutable, so a consumer may keep it; RetainedIntact compares
	// them with the copies made inside the callbacks.
	kept []keptString
}

type keptString struct {
	ev int
	s  string
}

// RetainedIntact returns "" when every string delivered BY VALUE (OnString,
// OnKey) still has the content it had during its callback, and a description of
// the first one that changed otherwise (the producer handed out a view of a
// buffer it kept writing to).
func (r *Recorder) RetainedIntact() string {
	for _, k := range r.kept {
		if k.ev < len(r.Evs) && k.s != string(r.Evs[k.ev].S) {
			return fmt.Sprintf("the string delivered by value at event #%d was %q during the callback and reads %q after the document", k.ev, clip(r.Evs[k.ev].S), clip([]byte(k.s)))
		}
	}
	return ""
}

func clip(b []byte) []byte {
	if len(b) > 120 {
		return b[:120]
	}
	return b
}

var _ structform.Visitor = (*Recorder)(nil)

func (r *Recorder) add(e Ev) error {
	idx := r.N
	r.N++
	if r.Limit > 0 && r.N > r.Limit {
		return ErrTooManyEvents
	}
	if r.Hook != nil {
		if err := r.Hook(idx, e); err != nil {
			return err
		}
	}
	r.Evs = append(r.Evs, e)
	return nil
}

func (r *Recorder) addKept(e Ev, s string) error {
	n := len(r.Evs)
	err := r.add(e)
	if err == nil && len(r.Evs) == n+1 && len(s) > 0 {
		r.kept = append(r.kept, keptString{n, s})
	}
	return err
}

func (r *Recorder) Reset() { r.Evs = nil; r.N = 0; r.kept = nil }

func (r *Recorder) OnObjectStart(l int, bt structform.BaseType) error {
	return r.add(Ev{K: KObjStart, L: l, T: uint8(bt)})
}
func (r *Recorder) OnObjectFinished() error { return r.add(Ev{K: KObjEnd}) }
func (r *Recorder) OnKey(s string) error    { return r.addKept(Ev{K: KKey, S: []byte(s)}, s) }
func (r *Recorder) OnArrayStart(l int, bt structform.BaseType) error {
	return r.add(Ev{K: KArrStart, L: l, T: uint8(bt)})
}
func (r *Recorder) OnArrayFinished() error  { return r.add(Ev{K: KArrEnd}) }
func (r *Recorder) OnNil() error            { return r.add(Ev{K: KNil}) }
func (r *Recorder) OnBool(b bool) error     { return r.add(Ev{K: KBool, B: b}) }
func (r *Recorder) OnString(s string) error { return r.addKept(Ev{K: KStr, S: []byte(s)}, s) }
func (r *Recorder) OnInt8(i int8) error     { return r.add(Ev{K: KI8, I: int64(i)}) }
func (r *Recorder) OnInt16(i int16) error   { return r.add(Ev{K: KI16, I: int64(i)}) }
func (r *Recorder) OnInt32(i int32) error   { return r.add(Ev{K: KI32, I: int64(i)}) }
func (r *Recorder) OnInt64(i int64) error   { return r.add(Ev{K: KI64, I: i}) }
func (r *Recorder) OnInt(i int) error       { return r.add(Ev{K: KInt, I: int64(i)}) }
func (r *Recorder) OnByte(b byte) error     { return r.add(Ev{K: KByte, U: uint64(b)}) }
func (r *Recorder) OnUint8(u uint8) error   { return r.add(Ev{K: KU8, U: uint64(u)}) }
func (r *Recorder) OnUint16(u uint16) error { return r.add(Ev{K: KU16, U: uint64(u)}) }
func (r *Recorder) OnUint32(u uint32) error { return r.add(Ev{K: KU32, U: uint64(u)}) }
func (r *Recorder) OnUint64(u uint64) error { return r.add(Ev{K: KU64, U: u}) }
func (r *Recorder) OnUint(u uint) error     { return r.add(Ev{K: KUint, U: uint64(u)}) }
func (r *Recorder) OnFloat32(f float32) error {
	return r.add(Ev{K: KF32, F: uint64(math.Float32bits(f))})
}
func (r *Recorder) OnFloat64(f float64) error { return r.add(Ev{K: KF64, F: math.Float64bits(f)}) }

// RefRecorder additionally implements StringRefVisitor and records by-reference
// deliveries as such (copying the bytes inside the callback).
type RefRecorder struct{ Recorder }

var _ structform.StringRefVisitor = (*RefRecorder)(nil)

func (r *RefRecorder) OnStringRef(s []byte) error { return r.add(Ev{K: KStrRef, S: cp(s)}) }
func (r *RefRecorder) OnKeyRef(s []byte) error    { return r.add(Ev{K: KKeyRef, S: cp(s)}) }

// Counter is a non-recording visitor (allocation-free) for resource bounds.
type Counter struct {
	Events int
	Bytes  int
	// Limit > 0: every event beyond Limit is refused with ErrTooManyEvents, so
	// that an amplifying input cannot keep the process busy.
	Limit int
}

// ErrTooManyEvents is returned by a Counter whose Limit was exceeded.
var ErrTooManyEvents = errTooMany{}

type errTooMany struct{}

func (errTooMany) Error() string { return "harness: event limit exceeded" }

func (c *Counter) ev() error {
	c.Events++
	if c.Limit > 0 && c.Events > c.Limit {
		return ErrTooManyEvents
	}
	return nil
}

var _ structform.Visitor = (*Counter)(nil)
var _ structform.StringRefVisitor = (*Counter)(nil)

func (c *Counter) OnObjectStart(int, structform.BaseType) error { return c.ev() }
func (c *Counter) OnObjectFinished() error                      { return c.ev() }
func (c *Counter) OnKey(s string) error                         { c.Bytes += len(s); return c.ev() }
func (c *Counter) OnKeyRef(s []byte) error                      { c.Bytes += len(s); return c.ev() }
func (c *Counter) OnArrayStart(int, structform.BaseType) error  { return c.ev() }
func (c *Counter) OnArrayFinished() error                       { return c.ev() }
func (c *Counter) OnNil() error                                 { return c.ev() }
func (c *Counter) OnBool(bool) error                            { return c.ev() }
func (c *Counter) OnString(s string) error                      { c.Bytes += len(s); return c.ev() }
func (c *Counter) OnStringRef(s []byte) error                   { c.Bytes += len(s); return c.ev() }
func (c *Counter) OnInt8(int8) error                            { return c.ev() }
func (c *Counter) OnInt16(int16) error                          { return c.ev() }
func (c *Counter) OnInt32(int32) error                          { return c.ev() }
func (c *Counter) OnInt64(int64) error                          { return c.ev() }
func (c *Counter) OnInt(int) error                              { return c.ev() }
func (c *Counter) OnByte(byte) error                            { return c.ev() }
func (c *Counter) OnUint8(uint8) error                          { return c.ev() }
func (c *Counter) OnUint16(uint16) error                        { return c.ev() }
func (c *Counter) OnUint32(uint32) error                        { return c.ev() }
func (c *Counter) OnUint64(uint64) error                        { return c.ev() }
func (c *Counter) OnUint(uint) error                            { return c.ev() }
func (c *Counter) OnFloat32(float32) error                      { return c.ev() }
func (c *Counter) OnFloat64(float64) error                      { return c.ev() }

// VisitorIface is structform.Visitor (re-exported for harness signatures).
type VisitorIface = structform.Visitor
