package gomodel

import (
	"errors"
	"fmt"
	"math"
	"reflect"
	"sort"
	"strconv"
	"strings"
	"unicode"
	"unicode/utf8"

	"verif/harness/model"
)

// ErrRefused marks a (type, value) the documented rules refuse (unsupported
// kind, non-string map key, inline+omitempty, inline of a non-object).
var ErrRefused = errors.New("refused")

func refused(format string, a ...any) error {
	return fmt.Errorf("%w: %s", ErrRefused, fmt.Sprintf(format, a...))
}

// TagOpts mirrors the documented struct tag options (gotype/tags.go doc).
type TagOpts struct {
	Name      string
	Omit      bool
	OmitEmpty bool
	Inline    bool
}

// ParseTag is an independent reading of the tag syntax: `name,opt,opt`; a name
// of "-" drops the field; options squash/inline, omitempty, omit; blanks around
// name and options are ignored.
func ParseTag(tag string) TagOpts {
	parts := strings.Split(tag, ",")
	var o TagOpts
	if parts[0] == "-" {
		o.Omit = true
		return o
	}
	o.Name = strings.TrimSpace(parts[0])
	for _, p := range parts[1:] {
		switch strings.TrimSpace(p) {
		case "inline", "squash":
			o.Inline = true
		case "omitempty":
			o.OmitEmpty = true
		case "omit":
			o.Omit = true
		}
	}
	return o
}

func exported(name string) bool {
	r, _ := utf8.DecodeRuneInString(name)
	return unicode.IsUpper(r)
}

// FieldName is the documented naming rule.
func FieldName(f reflect.StructField, o TagOpts) string {
	if o.Name != "" {
		return o.Name
	}
	return strings.ToLower(f.Name)
}

type isZeroer interface{ IsZero() bool }

// FoldModel computes the value the documented mapping assigns to rv.
func FoldModel(rv reflect.Value) (model.V, error) {
	if rv.IsValid() {
		if err := checkSupported(rv.Type(), map[reflect.Type]bool{}); err != nil {
			return model.V{}, err
		}
	}
	return foldV(rv, 0)
}

func foldV(rv reflect.Value, depth int) (model.V, error) {
	if depth > 500 {
		return model.V{}, fmt.Errorf("harness: value too deep")
	}
	if !rv.IsValid() {
		return model.Null(), nil
	}
	t := rv.Type()
	// custom folders first (pool types with known output)
	if v, ok, err := poolFold(rv); ok {
		return v, err
	}
	switch t.Kind() {
	case reflect.Bool:
		return model.Bool(rv.Bool()), nil
	case reflect.String:
		return model.Str([]byte(rv.String())), nil
	case reflect.Int, reflect.Int8, reflect.Int16, reflect.Int32, reflect.Int64:
		return model.Int(rv.Int()), nil
	case reflect.Uint, reflect.Uint8, reflect.Uint16, reflect.Uint32, reflect.Uint64:
		return model.Uint(rv.Uint()), nil
	case reflect.Float32:
		return model.Float32Bits(float32Bits(rv)), nil
	case reflect.Float64:
		return model.Float64Bits(math.Float64bits(rv.Float())), nil
	case reflect.Ptr:
		if rv.IsNil() {
			return model.Null(), nil
		}
		return foldV(rv.Elem(), depth+1)
	case reflect.Interface:
		if rv.IsNil() {
			return model.Null(), nil
		}
		// the dynamic type is compiled (and checked) as a whole on first use
		if err := checkSupported(rv.Elem().Type(), map[reflect.Type]bool{}); err != nil {
			return model.V{}, err
		}
		return foldV(rv.Elem(), depth+1)
	case reflect.Slice, reflect.Array:
		out := model.V{K: model.VArr, A: make([]model.V, 0, rv.Len())}
		for i := 0; i < rv.Len(); i++ {
			e, err := foldV(rv.Index(i), depth+1)
			if err != nil {
				return model.V{}, err
			}
			out.A = append(out.A, e)
		}
		return out, nil
	case reflect.Map:
		if t.Key().Kind() != reflect.String {
			return model.V{}, refused("map key kind %v", t.Key().Kind())
		}
		if err := checkSupported(t.Elem(), map[reflect.Type]bool{}); err != nil {
			return model.V{}, err
		}
		out := model.V{K: model.VObj, O: []model.Member{}, Unordered: true}
		it := rv.MapRange()
		for it.Next() {
			e, err := foldV(it.Value(), depth+1)
			if err != nil {
				return model.V{}, err
			}
			out.O = append(out.O, model.Member{Key: []byte(it.Key().String()), Val: e})
		}
		return out, nil
	case reflect.Struct:
		if err := checkSupported(t, map[reflect.Type]bool{}); err != nil {
			return model.V{}, err
		}
		out := model.V{K: model.VObj, O: []model.Member{}, Struct: true}
		if err := foldFields(rv, &out, depth); err != nil {
			return model.V{}, err
		}
		if names, ok := allFieldNames(t, 0); ok {
			out.FieldNames = names
		}
		return out, nil
	}
	return model.V{}, refused("unsupported kind %v", t.Kind())
}

// allFieldNames lists every member name a struct type knows (ok=false when it
// inlines something with an open set of names).
func allFieldNames(t reflect.Type, depth int) ([]string, bool) {
	if depth > 8 {
		return nil, false
	}
	names := []string{}
	for i := 0; i < t.NumField(); i++ {
		f := t.Field(i)
		if !exported(f.Name) {
			continue
		}
		o := ParseTag(f.Tag.Get("struct"))
		if o.Inline {
			ft := f.Type
			for ft.Kind() == reflect.Ptr {
				ft = ft.Elem()
			}
			if ft.Kind() != reflect.Struct {
				return nil, false
			}
			if _, custom := poolFolders[ft]; custom {
				return nil, false
			}
			sub, ok := allFieldNames(ft, depth+1)
			if !ok {
				return nil, false
			}
			names = append(names, sub...)
			continue
		}
		names = append(names, FieldName(f, o), strings.ToLower(f.Name), o.Name)
	}
	return names, true
}

func float32Bits(rv reflect.Value) uint32 {
	if rv.Type() == reflect.TypeOf(float32(0)) && rv.CanInterface() {
		return math.Float32bits(rv.Interface().(float32))
	}
	if rv.CanAddr() {
		return *(*uint32)(rv.Addr().UnsafePointer())
	}
	return math.Float32bits(float32(rv.Float()))
}

// checkSupported walks a static type the way a folder is compiled: the whole
// type must be foldable even if the value never reaches the offending part.
func checkSupported(t reflect.Type, seen map[reflect.Type]bool) error {
	if seen[t] {
		return nil
	}
	seen[t] = true
	if _, ok := poolFolders[t]; ok {
		return nil
	}
	switch t.Kind() {
	case reflect.Ptr, reflect.Slice, reflect.Array:
		return checkSupported(t.Elem(), seen)
	case reflect.Map:
		if t.Key().Kind() != reflect.String {
			return refused("map key kind %v", t.Key().Kind())
		}
		return checkSupported(t.Elem(), seen)
	case reflect.Struct:
		for i := 0; i < t.NumField(); i++ {
			f := t.Field(i)
			if !exported(f.Name) {
				continue
			}
			o := ParseTag(f.Tag.Get("struct"))
			if o.Inline && o.OmitEmpty {
				return refused("inline and omitempty on field %s", f.Name)
			}
			if o.Omit {
				continue
			}
			if o.Inline {
				bt := f.Type
				for bt.Kind() == reflect.Ptr {
					bt = bt.Elem()
				}
				if _, ok := poolFolders[bt]; ok {
					continue
				}
				switch bt.Kind() {
				case reflect.Struct, reflect.Interface:
				case reflect.Map:
					if bt.Key().Kind() != reflect.String {
						return refused("inline map with key kind %v", bt.Key().Kind())
					}
				default:
					return refused("inline on %v", bt.Kind())
				}
				if bt.Kind() != reflect.Interface {
					if err := checkSupported(bt, seen); err != nil {
						return err
					}
				}
				continue
			}
			ft := f.Type
			if o.OmitEmpty {
				for ft.Kind() == reflect.Ptr {
					ft = ft.Elem()
				}
			}
			if err := checkSupported(ft, seen); err != nil {
				return err
			}
		}
		return nil
	case reflect.Bool, reflect.String, reflect.Int, reflect.Int8, reflect.Int16, reflect.Int32, reflect.Int64,
		reflect.Uint, reflect.Uint8, reflect.Uint16, reflect.Uint32, reflect.Uint64, reflect.Float32, reflect.Float64, reflect.Interface:
		return nil
	}
	return refused("unsupported kind %v", t.Kind())
}

// IsEmpty is the documented emptiness of omitempty: nil pointer (anywhere on
// the chain) or interface, zero-length string/slice/array/map, IsZero()==true;
// looked up through an interface's dynamic value. It returns the value to fold
// (pointers and interfaces resolved) when not empty.
func IsEmpty(rv reflect.Value) (reflect.Value, bool) {
	for {
		switch rv.Kind() {
		case reflect.Ptr:
			if rv.IsNil() {
				return rv, true
			}
			rv = rv.Elem()
			continue
		case reflect.Interface:
			if rv.IsNil() {
				return rv, true
			}
			rv = rv.Elem()
			continue
		case reflect.String, reflect.Slice, reflect.Array, reflect.Map:
			if rv.Len() == 0 {
				return rv, true
			}
			// not zero-length: IsZero() is still consulted (below)
		}
		break
	}
	if rv.Type().Implements(reflect.TypeOf((*isZeroer)(nil)).Elem()) && rv.CanInterface() {
		return rv, rv.Interface().(isZeroer).IsZero()
	}
	if reflect.PointerTo(rv.Type()).Implements(reflect.TypeOf((*isZeroer)(nil)).Elem()) {
		p := reflect.New(rv.Type())
		p.Elem().Set(rv)
		return rv, p.Interface().(isZeroer).IsZero()
	}
	return rv, false
}

func foldFields(rv reflect.Value, out *model.V, depth int) error {
	t := rv.Type()
	for i := 0; i < t.NumField(); i++ {
		f := t.Field(i)
		if !exported(f.Name) {
			continue
		}
		o := ParseTag(f.Tag.Get("struct"))
		if o.Inline && o.OmitEmpty {
			return refused("inline and omitempty on field %s", f.Name)
		}
		if o.Omit {
			continue
		}
		fv := rv.Field(i)
		if o.Inline {
			if err := foldInline(fv, out, depth); err != nil {
				return err
			}
			continue
		}
		if o.OmitEmpty {
			resolved, empty := IsEmpty(fv)
			if empty {
				continue
			}
			fv = resolved
		}
		v, err := foldV(fv, depth+1)
		if err != nil {
			return err
		}
		out.O = append(out.O, model.Member{Key: []byte(FieldName(f, o)), Val: v})
	}
	return nil
}

func foldInline(fv reflect.Value, out *model.V, depth int) error {
	for fv.Kind() == reflect.Ptr {
		if fv.IsNil() {
			return nil // a nil pointer has no members to contribute
		}
		fv = fv.Elem()
	}
	if _, ok := poolFolders[fv.Type()]; ok {
		if (fv.Kind() == reflect.Map || fv.Kind() == reflect.Slice) && fv.IsNil() {
			// a nil inlined value is "missing": no members, whether or not its
			// type has a folder (the same rule as for nil pointers and interfaces)
			return nil
		}
		v, _, err := poolFold(fv)
		if err != nil {
			return err
		}
		if v.K != model.VObj {
			return refused("inline of a folder that does not emit an object")
		}
		out.O = append(out.O, v.O...)
		if v.Unordered && len(v.O) > 1 {
			out.Unordered = true
		}
		return nil
	}
	switch fv.Kind() {
	case reflect.Struct:
		return foldFields(fv, out, depth+1)
	case reflect.Map:
		if fv.Type().Key().Kind() != reflect.String {
			return refused("inline map with key kind %v", fv.Type().Key().Kind())
		}
		v, err := foldV(fv, depth+1)
		if err != nil {
			return err
		}
		out.O = append(out.O, v.O...)
		if len(v.O) > 1 {
			out.Unordered = true
		}
		return nil
	case reflect.Interface:
		if fv.IsNil() {
			return nil
		}
		v, err := foldV(fv.Elem(), depth+1)
		if err != nil {
			return err
		}
		if v.K != model.VObj {
			return fmt.Errorf("%w: inline interface holding a non-object", ErrRefused)
		}
		out.O = append(out.O, v.O...)
		if v.Unordered && len(v.O) > 1 {
			out.Unordered = true
		}
		return nil
	}
	return refused("inline on %v", fv.Kind())
}

// ---- pool types with custom folders ----

var poolFolders = map[reflect.Type]func(reflect.Value) model.V{
	reflect.TypeOf(FolderObj{}): func(rv reflect.Value) model.V {
		return model.Obj(
			model.Member{Key: []byte("fa"), Val: model.Int(rv.Field(0).Int())},
			model.Member{Key: []byte("fb"), Val: model.Str([]byte(rv.Field(1).String()))})
	},
	reflect.TypeOf(FolderPtr{}): func(rv reflect.Value) model.V {
		return model.Obj(model.Member{Key: []byte("pa"), Val: model.Int(rv.Field(0).Int())})
	},
	reflect.TypeOf(FolderScalar{}): func(rv reflect.Value) model.V { return model.Int(rv.Field(0).Int() * 2) },
	reflect.TypeOf(RegT{}): func(rv reflect.Value) model.V {
		return model.Obj(model.Member{Key: []byte("rx"), Val: model.Int(rv.Field(0).Int())})
	},
	reflect.TypeOf(RegPS{}): func(rv reflect.Value) model.V {
		if rv.Field(0).IsNil() {
			return model.Obj(model.Member{Key: []byte("ps"), Val: model.Null()})
		}
		return model.Obj(model.Member{Key: []byte("ps"), Val: model.Int(rv.Field(0).Elem().Int())})
	},
	reflect.TypeOf(FLevel(0)): func(rv reflect.Value) model.V {
		return model.Str([]byte("level-" + strconv.FormatInt(rv.Int(), 10)))
	},
	reflect.TypeOf(FFlag(false)): func(rv reflect.Value) model.V {
		if rv.Bool() {
			return model.Int(1)
		}
		return model.Int(0)
	},
	reflect.TypeOf(RDur(0)): func(rv reflect.Value) model.V {
		return model.Str([]byte(strconv.FormatInt(rv.Int(), 10) + "ns"))
	},
	reflect.TypeOf(FTags(nil)): func(rv reflect.Value) model.V {
		parts := make([]string, rv.Len())
		for i := range parts {
			parts[i] = rv.Index(i).String()
		}
		return model.Str([]byte("tags:" + strings.Join(parts, ",")))
	},
	reflect.TypeOf(FCounts(nil)): func(rv reflect.Value) model.V {
		var sum int64
		for it := rv.MapRange(); it.Next(); {
			sum += it.Value().Int()
		}
		return model.Obj(
			model.Member{Key: []byte("n"), Val: model.Int(int64(rv.Len()))},
			model.Member{Key: []byte("sum"), Val: model.Int(sum)})
	},
	reflect.TypeOf(FAnyMap(nil)): func(rv reflect.Value) model.V {
		var keys []string
		for it := rv.MapRange(); it.Next(); {
			keys = append(keys, it.Key().String())
		}
		sort.Strings(keys)
		out := model.V{K: model.VArr, A: []model.V{}}
		for _, k := range keys {
			out.A = append(out.A, model.Str([]byte(k)))
		}
		return out
	},
	reflect.TypeOf(FAnyList(nil)): func(rv reflect.Value) model.V { return model.Int(int64(rv.Len())) },
}

// poolFoldersErr: pool folders that can fail (they fold Go values themselves);
// every type in here is also in poolFolders.
var poolFoldersErr = map[reflect.Type]func(reflect.Value) (model.V, error){}

func poolFold(rv reflect.Value) (model.V, bool, error) {
	if f, ok := poolFoldersErr[rv.Type()]; ok {
		v, err := f(rv)
		return v, true, err
	}
	if f, ok := poolFolders[rv.Type()]; ok {
		return f(rv), true, nil
	}
	return model.V{}, false, nil
}

func init() {
	fdeleg := func(rv reflect.Value) (model.V, error) {
		out := model.V{K: model.VObj, Struct: true, O: []model.Member{{Key: []byte("a"), Val: model.Int(rv.Field(0).Int())}}}
		if !rv.Field(1).IsNil() {
			m, err := foldV(rv.Field(1), 1)
			if err != nil {
				// the delegated Fold fails, and FDeleg.Fold returns that error
				return out, err
			}
			out.O = append(out.O, m.O...)
			if len(m.O) > 1 {
				out.Unordered = true
			}
		}
		return out, nil
	}
	poolFoldersErr[reflect.TypeOf(FDeleg{})] = fdeleg
	poolFolders[reflect.TypeOf(FDeleg{})] = func(rv reflect.Value) model.V {
		v, _ := fdeleg(rv)
		return v
	}
}
