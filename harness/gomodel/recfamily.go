package gomodel

import "reflect"

// Rec2 is a family of self-referential types (one distinct Go type per pair of
// type arguments): reflect.StructOf cannot build recursive types, but the
// concurrency check needs MANY fresh ones — the first use of a recursive type
// under contention is a once-per-type-per-process event.
type Rec2[A, B any] struct {
	V    A
	Next *Rec2[A, B]
	Kids []Rec2[A, B]
	W    B
	X    A `struct:"x,omitempty"`
	Y    B
	Z    map[string]*Rec2[A, B]
}

// RecFamily lists the instantiations (also registered in Pool as Rec2_<i>).
var RecFamily = []reflect.Type{
	reflect.TypeOf(Rec2[bool, bool]{}),
	reflect.TypeOf(Rec2[bool, string]{}),
	reflect.TypeOf(Rec2[bool, int]{}),
	reflect.TypeOf(Rec2[bool, int8]{}),
	reflect.TypeOf(Rec2[bool, int16]{}),
	reflect.TypeOf(Rec2[bool, int32]{}),
	reflect.TypeOf(Rec2[bool, int64]{}),
	reflect.TypeOf(Rec2[bool, uint8]{}),
	reflect.TypeOf(Rec2[bool, uint16]{}),
	reflect.TypeOf(Rec2[bool, uint32]{}),
	reflect.TypeOf(Rec2[bool, uint64]{}),
	reflect.TypeOf(Rec2[bool, float64]{}),
	reflect.TypeOf(Rec2[string, bool]{}),
	reflect.TypeOf(Rec2[string, string]{}),
	reflect.TypeOf(Rec2[string, int]{}),
	reflect.TypeOf(Rec2[string, int8]{}),
	reflect.TypeOf(Rec2[string, int16]{}),
	reflect.TypeOf(Rec2[string, int32]{}),
	reflect.TypeOf(Rec2[string, int64]{}),
	reflect.TypeOf(Rec2[string, uint8]{}),
	reflect.TypeOf(Rec2[string, uint16]{}),
	reflect.TypeOf(Rec2[string, uint32]{}),
	reflect.TypeOf(Rec2[string, uint64]{}),
	reflect.TypeOf(Rec2[string, float64]{}),
	reflect.TypeOf(Rec2[int, bool]{}),
	reflect.TypeOf(Rec2[int, string]{}),
	reflect.TypeOf(Rec2[int, int]{}),
	reflect.TypeOf(Rec2[int, int8]{}),
	reflect.TypeOf(Rec2[int, int16]{}),
	reflect.TypeOf(Rec2[int, int32]{}),
	reflect.TypeOf(Rec2[int, int64]{}),
	reflect.TypeOf(Rec2[int, uint8]{}),
	reflect.TypeOf(Rec2[int, uint16]{}),
	reflect.TypeOf(Rec2[int, uint32]{}),
	reflect.TypeOf(Rec2[int, uint64]{}),
	reflect.TypeOf(Rec2[int, float64]{}),
	reflect.TypeOf(Rec2[int8, bool]{}),
	reflect.TypeOf(Rec2[int8, string]{}),
	reflect.TypeOf(Rec2[int8, int]{}),
	reflect.TypeOf(Rec2[int8, int8]{}),
	reflect.TypeOf(Rec2[int8, int16]{}),
	reflect.TypeOf(Rec2[int8, int32]{}),
	reflect.TypeOf(Rec2[int8, int64]{}),
	reflect.TypeOf(Rec2[int8, uint8]{}),
	reflect.TypeOf(Rec2[int8, uint16]{}),
	reflect.TypeOf(Rec2[int8, uint32]{}),
	reflect.TypeOf(Rec2[int8, uint64]{}),
	reflect.TypeOf(Rec2[int8, float64]{}),
	reflect.TypeOf(Rec2[int16, bool]{}),
	reflect.TypeOf(Rec2[int16, string]{}),
	reflect.TypeOf(Rec2[int16, int]{}),
	reflect.TypeOf(Rec2[int16, int8]{}),
	reflect.TypeOf(Rec2[int16, int16]{}),
	reflect.TypeOf(Rec2[int16, int32]{}),
	reflect.TypeOf(Rec2[int16, int64]{}),
	reflect.TypeOf(Rec2[int16, uint8]{}),
	reflect.TypeOf(Rec2[int16, uint16]{}),
	reflect.TypeOf(Rec2[int16, uint32]{}),
	reflect.TypeOf(Rec2[int16, uint64]{}),
	reflect.TypeOf(Rec2[int16, float64]{}),
	reflect.TypeOf(Rec2[int32, bool]{}),
	reflect.TypeOf(Rec2[int32, string]{}),
	reflect.TypeOf(Rec2[int32, int]{}),
	reflect.TypeOf(Rec2[int32, int8]{}),
	reflect.TypeOf(Rec2[int32, int16]{}),
	reflect.TypeOf(Rec2[int32, int32]{}),
	reflect.TypeOf(Rec2[int32, int64]{}),
	reflect.TypeOf(Rec2[int32, uint8]{}),
	reflect.TypeOf(Rec2[int32, uint16]{}),
	reflect.TypeOf(Rec2[int32, uint32]{}),
	reflect.TypeOf(Rec2[int32, uint64]{}),
	reflect.TypeOf(Rec2[int32, float64]{}),
	reflect.TypeOf(Rec2[int64, bool]{}),
	reflect.TypeOf(Rec2[int64, string]{}),
	reflect.TypeOf(Rec2[int64, int]{}),
	reflect.TypeOf(Rec2[int64, int8]{}),
	reflect.TypeOf(Rec2[int64, int16]{}),
	reflect.TypeOf(Rec2[int64, int32]{}),
	reflect.TypeOf(Rec2[int64, int64]{}),
	reflect.TypeOf(Rec2[int64, uint8]{}),
	reflect.TypeOf(Rec2[int64, uint16]{}),
	reflect.TypeOf(Rec2[int64, uint32]{}),
	reflect.TypeOf(Rec2[int64, uint64]{}),
	reflect.TypeOf(Rec2[int64, float64]{}),
	reflect.TypeOf(Rec2[uint8, bool]{}),
	reflect.TypeOf(Rec2[uint8, string]{}),
	reflect.TypeOf(Rec2[uint8, int]{}),
	reflect.TypeOf(Rec2[uint8, int8]{}),
	reflect.TypeOf(Rec2[uint8, int16]{}),
	reflect.TypeOf(Rec2[uint8, int32]{}),
	reflect.TypeOf(Rec2[uint8, int64]{}),
	reflect.TypeOf(Rec2[uint8, uint8]{}),
	reflect.TypeOf(Rec2[uint8, uint16]{}),
	reflect.TypeOf(Rec2[uint8, uint32]{}),
	reflect.TypeOf(Rec2[uint8, uint64]{}),
	reflect.TypeOf(Rec2[uint8, float64]{}),
	reflect.TypeOf(Rec2[uint16, bool]{}),
	reflect.TypeOf(Rec2[uint16, string]{}),
	reflect.TypeOf(Rec2[uint16, int]{}),
	reflect.TypeOf(Rec2[uint16, int8]{}),
	reflect.TypeOf(Rec2[uint16, int16]{}),
	reflect.TypeOf(Rec2[uint16, int32]{}),
	reflect.TypeOf(Rec2[uint16, int64]{}),
	reflect.TypeOf(Rec2[uint16, uint8]{}),
	reflect.TypeOf(Rec2[uint16, uint16]{}),
	reflect.TypeOf(Rec2[uint16, uint32]{}),
	reflect.TypeOf(Rec2[uint16, uint64]{}),
	reflect.TypeOf(Rec2[uint16, float64]{}),
	reflect.TypeOf(Rec2[uint32, bool]{}),
	reflect.TypeOf(Rec2[uint32, string]{}),
	reflect.TypeOf(Rec2[uint32, int]{}),
	reflect.TypeOf(Rec2[uint32, int8]{}),
	reflect.TypeOf(Rec2[uint32, int16]{}),
	reflect.TypeOf(Rec2[uint32, int32]{}),
	reflect.TypeOf(Rec2[uint32, int64]{}),
	reflect.TypeOf(Rec2[uint32, uint8]{}),
	reflect.TypeOf(Rec2[uint32, uint16]{}),
	reflect.TypeOf(Rec2[uint32, uint32]{}),
	reflect.TypeOf(Rec2[uint32, uint64]{}),
	reflect.TypeOf(Rec2[uint32, float64]{}),
	reflect.TypeOf(Rec2[uint64, bool]{}),
	reflect.TypeOf(Rec2[uint64, string]{}),
	reflect.TypeOf(Rec2[uint64, int]{}),
	reflect.TypeOf(Rec2[uint64, int8]{}),
	reflect.TypeOf(Rec2[uint64, int16]{}),
	reflect.TypeOf(Rec2[uint64, int32]{}),
	reflect.TypeOf(Rec2[uint64, int64]{}),
	reflect.TypeOf(Rec2[uint64, uint8]{}),
	reflect.TypeOf(Rec2[uint64, uint16]{}),
	reflect.TypeOf(Rec2[uint64, uint32]{}),
	reflect.TypeOf(Rec2[uint64, uint64]{}),
	reflect.TypeOf(Rec2[uint64, float64]{}),
	reflect.TypeOf(Rec2[float64, bool]{}),
	reflect.TypeOf(Rec2[float64, string]{}),
	reflect.TypeOf(Rec2[float64, int]{}),
	reflect.TypeOf(Rec2[float64, int8]{}),
	reflect.TypeOf(Rec2[float64, int16]{}),
	reflect.TypeOf(Rec2[float64, int32]{}),
	reflect.TypeOf(Rec2[float64, int64]{}),
	reflect.TypeOf(Rec2[float64, uint8]{}),
	reflect.TypeOf(Rec2[float64, uint16]{}),
	reflect.TypeOf(Rec2[float64, uint32]{}),
	reflect.TypeOf(Rec2[float64, uint64]{}),
	reflect.TypeOf(Rec2[float64, float64]{}),
}

func init() {
	for i, t := range RecFamily {
		Pool = append(Pool, PoolType{Name: recName(i), Type: t, Recursive: true, Family: true})
	}
}

func recName(i int) string {
	const digits = "0123456789"
	if i < 10 {
		return "Rec2_" + digits[i:i+1]
	}
	if i < 100 {
		return "Rec2_" + digits[i/10:i/10+1] + digits[i%10:i%10+1]
	}
	return "Rec2_" + digits[i/100:i/100+1] + digits[i/10%10:i/10%10+1] + digits[i%10:i%10+1]
}

// RecName returns the pool name of the i-th family member.
func RecName(i int) string { return recName(i % len(RecFamily)) }
