package gomodel

import (
	"fmt"
	"math"
	"reflect"
	"strings"

	"pgregory.net/rapid"

	"verif/harness/gen"
)

// GoVal is a serialisable description of a Go value of a described type.
type GoVal struct {
	Nil   bool      `json:"nil,omitempty"` // ptr, slice, map, iface
	B     bool      `json:"b,omitempty"`
	I     int64     `json:"i,omitempty"`
	U     uint64    `json:"u,omitempty"`
	F     uint64    `json:"f,omitempty"` // float bits
	S     []byte    `json:"s,omitempty"`
	Elems []GoVal   `json:"e,omitempty"`   // slice/array elements, struct fields, map values
	Keys  []string  `json:"ks,omitempty"`  // map keys
	Ptr   *GoVal    `json:"p,omitempty"`   // pointer target / interface dynamic value
	Dyn   *TypeDesc `json:"dyn,omitempty"` // interface: dynamic type
}

// ValCfg steers value generation.
type ValCfg struct {
	ValidUTF8 bool
	Finite    bool
	NoBigUint bool // unsigned <= MaxInt64
	Budget    int
	// DynFolders: an interface{} may also hold pool types with custom folders
	// and named containers (fold-side checks only)
	DynFolders bool
}

type valGen struct {
	cfg         ValCfg
	budget      int
	inlineIface bool // the next interface value drawn is an inlined field
	inInl       bool // ... of an "inl_struct": not another inl_struct directly inside (duplicate member names)
	omitIface   bool // the next interface value drawn is an omitempty field
}

// what an omitempty interface field holds: every flavour of "empty or not" —
// nil, empty and non-empty strings/slices/maps, IsZeroer structs (value and
// pointer receiver) that are zero or not, plain structs, pointers to those
var dynEmptyKinds = []string{"nil", "string", "slice_int", "map_string", "struct", "ptr_struct", "int", "pool:ZeroVal", "pool:ZeroVal", "pool:ZeroPtr", "pool:FolderObj", "ptr_int", "pool:ZInt", "pool:ZF64", "pool:ZFlag", "pool:ZU8", "pool:ZStr", "pool:ZList"}

// DrawValue draws a value for the type.
func DrawValue(t *rapid.T, typ reflect.Type, cfg ValCfg) GoVal {
	if cfg.Budget == 0 {
		cfg.Budget = 60
	}
	g := &valGen{cfg: cfg, budget: cfg.Budget}
	return g.val(t, typ, 0)
}

func intRange(k reflect.Kind) (int64, int64) {
	switch k {
	case reflect.Int8:
		return math.MinInt8, math.MaxInt8
	case reflect.Int16:
		return math.MinInt16, math.MaxInt16
	case reflect.Int32:
		return math.MinInt32, math.MaxInt32
	}
	return math.MinInt64, math.MaxInt64
}

func uintMax(k reflect.Kind) uint64 {
	switch k {
	case reflect.Uint8:
		return math.MaxUint8
	case reflect.Uint16:
		return math.MaxUint16
	case reflect.Uint32:
		return math.MaxUint32
	}
	return math.MaxUint64
}

// dynamic types an interface{} value may hold
var dynKinds = []string{"nil", "bool", "string", "int", "int8", "int64", "uint8", "uint64", "float32", "float64", "slice_iface", "map_iface", "slice_int", "map_string", "struct", "ptr_int", "slice_string", "bytes", "scalar", "slice_scalar", "map_scalar", "gen_struct", "inl_struct"}

// dynamic pool types (fold side): implemented folders — incl. named containers
// of builtin elements, which the library also knows a conversion fast path for —
// the registered folder and plain named containers
var dynPool = []string{"FolderObj", "FolderPtr", "FolderScalar", "RegT", "RegPS", "FTags", "FCounts", "FAnyMap", "FAnyList", "NMapInt", "NMapAny", "NSliceStr", "NSliceAny", "NBytes", "ZeroVal", "NArr3", "NArrStr", "NSliceN", "NMapN", "NUint64", "NInt16", "FLevel", "FFlag", "RDur", "FDeleg"}

// dynamic types that fold to an object (what an inlined interface must hold)
var dynObjKinds = []string{"map_iface", "map_string", "struct", "map_scalar", "gen_struct", "gen_struct", "inl_struct", "inl_struct", "pool:FolderObj", "pool:FCounts", "pool:NMapAny", "ptr_struct", "pool:FDeleg", "pool:FDeleg"}

func (g *valGen) dynType(t *rapid.T, depth int) *TypeDesc {
	k := rapid.SampledFrom(dynKinds).Draw(t, "dyn")
	if g.cfg.DynFolders && rapid.IntRange(0, 3).Draw(t, "dynp") == 0 {
		k = "pool:" + rapid.SampledFrom(dynPool).Draw(t, "dynpool")
	}
	return g.dynTypeOf(t, k, depth)
}

func (g *valGen) dynObjType(t *rapid.T, depth int) *TypeDesc {
	k := rapid.SampledFrom(dynObjKinds).Draw(t, "dyno")
	if strings.HasPrefix(k, "pool:") && !g.cfg.DynFolders {
		k = "map_iface"
	}
	if k == "ptr_struct" && !g.cfg.DynFolders {
		// (the pointer may be nil: a refusal, which only fold-side checks expect)
		k = "struct"
	}
	if g.budget <= 0 || depth > 4 {
		k = "map_string"
	}
	return g.dynTypeOf(t, k, 0)
}

func (g *valGen) dynTypeOf(t *rapid.T, k string, depth int) *TypeDesc {
	if (g.budget <= 0 || depth > 4) && k != "map_string" {
		k = "int"
	}
	switch k {
	case "scalar":
		return &TypeDesc{Kind: rapid.SampledFrom(ScalarKinds).Draw(t, "dynsk")}
	case "slice_scalar":
		return &TypeDesc{Kind: "slice", Elem: &TypeDesc{Kind: rapid.SampledFrom(ScalarKinds).Draw(t, "dynsk")}}
	case "map_scalar":
		return &TypeDesc{Kind: "map", Elem: &TypeDesc{Kind: rapid.SampledFrom(ScalarKinds).Draw(t, "dynsk")}}
	case "gen_struct":
		// a generated struct type (fields of every kind, tags) as dynamic value
		tg := &typeGen{cfg: TypeCfg{MaxDepth: 2, Tags: true, InlineOnlyStruct: true, NoIface: depth > 2}, budget: 8}
		td := tg.structType(t, 0)
		// always one plain member (an object without members is "empty" once it
		// has become a map, but not as a struct: omitempty would see two things)
		td.Fields = append([]FieldDesc{{Name: "G0", Type: TypeDesc{Kind: "int"}}}, td.Fields...)
		// unique member names: the value is rebuilt as a map, which keeps one
		// member per name
		uniqueMemberNames(&td, map[string]bool{}, new(int))
		return &td
	}
	if strings.HasPrefix(k, "pool:") {
		if strings.HasSuffix(k, "FolderPtr") || strings.HasSuffix(k, "RegT") || strings.HasSuffix(k, "FFlag") || strings.HasSuffix(k, "RDur") {
			// pointer receiver / registered for the pointer type
			return &TypeDesc{Kind: "ptr", Elem: &TypeDesc{Kind: "pool", Pool: k[5:]}}
		}
		return &TypeDesc{Kind: "pool", Pool: k[5:]}
	}
	dynStruct := TypeDesc{Kind: "struct", Fields: []FieldDesc{
		{Name: "P", Type: TypeDesc{Kind: "int"}},
		{Name: "Q", Tag: `struct:"q,omitempty"`, Type: TypeDesc{Kind: "string"}},
	}}
	switch k {
	case "ptr_struct":
		return &TypeDesc{Kind: "ptr", Elem: &dynStruct}
	case "nil":
		return nil
	case "slice_iface":
		return &TypeDesc{Kind: "slice", Elem: &TypeDesc{Kind: "iface"}}
	case "map_iface":
		return &TypeDesc{Kind: "map", Elem: &TypeDesc{Kind: "iface"}}
	case "slice_int":
		return &TypeDesc{Kind: "slice", Elem: &TypeDesc{Kind: "int"}}
	case "slice_string":
		return &TypeDesc{Kind: "slice", Elem: &TypeDesc{Kind: "string"}}
	case "bytes":
		return &TypeDesc{Kind: "slice", Elem: &TypeDesc{Kind: "uint8"}}
	case "map_string":
		return &TypeDesc{Kind: "map", Elem: &TypeDesc{Kind: "string"}}
	case "ptr_int":
		return &TypeDesc{Kind: "ptr", Elem: &TypeDesc{Kind: "int"}}
	case "struct":
		return &dynStruct
	case "inl_struct":
		// a struct that itself inlines an interface: inlining met again while an
		// inlined (or any other) interface value is being folded
		return &TypeDesc{Kind: "struct", Fields: []FieldDesc{
			{Name: "Pzz", Type: TypeDesc{Kind: "int"}},
			{Name: "Jzz", Tag: `struct:",inline"`, Type: TypeDesc{Kind: "iface"}},
			{Name: "Qzz", Type: TypeDesc{Kind: "string"}},
		}}
	}
	return &TypeDesc{Kind: k}
}

func (g *valGen) size(t *rapid.T) int {
	n := rapid.IntRange(0, 4).Draw(t, "vn")
	if n > g.budget {
		n = 0
	}
	return n
}

func (g *valGen) val(t *rapid.T, typ reflect.Type, depth int) GoVal {
	g.budget--
	switch typ.Kind() {
	case reflect.Bool:
		return GoVal{B: rapid.Bool().Draw(t, "vb")}
	case reflect.String:
		return GoVal{S: gen.Str(t, g.cfg.ValidUTF8, "vs")}
	case reflect.Int, reflect.Int8, reflect.Int16, reflect.Int32, reflect.Int64:
		lo, hi := intRange(typ.Kind())
		return GoVal{I: gen.Int64In(t, lo, hi, "vi")}
	case reflect.Uint, reflect.Uint8, reflect.Uint16, reflect.Uint32, reflect.Uint64, reflect.Uintptr:
		mx := uintMax(typ.Kind())
		if g.cfg.NoBigUint && mx > math.MaxInt64 {
			mx = math.MaxInt64
		}
		return GoVal{U: gen.Uint64In(t, mx, "vu")}
	case reflect.Float32:
		return GoVal{F: uint64(gen.Float32Bits(t, g.cfg.Finite, "vf32"))}
	case reflect.Float64:
		return GoVal{F: gen.Float64Bits(t, g.cfg.Finite, "vf64")}
	case reflect.Ptr:
		if depth > 8 || g.budget <= 0 || rapid.IntRange(0, 3).Draw(t, "vnilp") == 0 {
			return GoVal{Nil: true}
		}
		v := g.val(t, typ.Elem(), depth+1)
		return GoVal{Ptr: &v}
	case reflect.Interface:
		var dt *TypeDesc
		inInl := g.inInl
		g.inInl = false
		if !g.inlineIface && depth < 3 && g.budget > 0 && rapid.IntRange(0, 39).Draw(t, "vdeep") == 0 {
			// containers nested 2..12 levels inside one interface value (the
			// unfolder keeps its scratch slots for these on a growing buffer)
			return g.deepNest(t, rapid.IntRange(2, 12).Draw(t, "vdeepn"))
		}
		if g.inlineIface {
			g.inlineIface = false
			dt = g.dynObjType(t, depth)
		} else if g.omitIface {
			g.omitIface = false
			k := rapid.SampledFrom(dynEmptyKinds).Draw(t, "dyne")
			if k == "pool:ZeroPtr" || (k != "pool:FolderObj" && strings.HasPrefix(k, "pool:Z") && rapid.Bool().Draw(t, "dynep")) {
				dt = &TypeDesc{Kind: "ptr", Elem: &TypeDesc{Kind: "pool", Pool: k[5:]}}
			} else {
				dt = g.dynTypeOf(t, k, depth)
			}
		} else {
			dt = g.dynType(t, depth)
		}
		if inInl && dt != nil && dt.Kind == "struct" && len(dt.Fields) == 3 && dt.Fields[1].Name == "Jzz" {
			dt = &TypeDesc{Kind: "map", Elem: &TypeDesc{Kind: "iface"}}
		}
		if dt == nil {
			return GoVal{Nil: true}
		}
		rt, err := Build(dt)
		if err != nil {
			return GoVal{Nil: true}
		}
		v := g.val(t, rt, depth+1)
		return GoVal{Ptr: &v, Dyn: dt}
	case reflect.Slice:
		if rapid.IntRange(0, 4).Draw(t, "vnils") == 0 {
			return GoVal{Nil: true}
		}
		n := g.size(t)
		out := GoVal{Elems: make([]GoVal, 0, n)}
		for i := 0; i < n; i++ {
			out.Elems = append(out.Elems, g.val(t, typ.Elem(), depth+1))
		}
		return out
	case reflect.Array:
		out := GoVal{}
		for i := 0; i < typ.Len(); i++ {
			out.Elems = append(out.Elems, g.val(t, typ.Elem(), depth+1))
		}
		return out
	case reflect.Map:
		if rapid.IntRange(0, 4).Draw(t, "vnilm") == 0 {
			return GoVal{Nil: true}
		}
		if typ.Key().Kind() != reflect.String {
			// map[int]T: one entry with key 1
			v := g.val(t, typ.Elem(), depth+1)
			return GoVal{Keys: []string{"1"}, Elems: []GoVal{v}}
		}
		if depth > 5 {
			return GoVal{Elems: []GoVal{}}
		}
		n := g.size(t)
		out := GoVal{Elems: []GoVal{}, Keys: []string{}}
		seen := map[string]bool{}
		for i := 0; i < n; i++ {
			k := string(gen.Key(t, g.cfg.ValidUTF8, "vk"))
			if seen[k] {
				continue
			}
			seen[k] = true
			out.Keys = append(out.Keys, k)
			out.Elems = append(out.Elems, g.val(t, typ.Elem(), depth+1))
		}
		return out
	case reflect.Struct:
		out := GoVal{}
		if (typ.Name() == "ZeroVal" || typ.Name() == "ZeroPtr") && rapid.Bool().Draw(t, "vzero") {
			// the IsZero()==true value must be common, not a 1-in-10 accident
			return GoVal{Elems: []GoVal{{I: 0}}}
		}
		for i := 0; i < typ.NumField(); i++ {
			if depth > 5 && (typ.Field(i).Type.Kind() == reflect.Slice) {
				out.Elems = append(out.Elems, GoVal{Nil: true})
				continue
			}
			// an inlined interface must hold something that folds to an object:
			// make that the common case (anything else is a refusal)
			g.inlineIface, g.omitIface = false, false
			if f := typ.Field(i); f.Type.Kind() == reflect.Interface && ParseTag(f.Tag.Get("struct")).Inline {
				// (fold-side checks also get the refusal: anything else in there)
				g.inlineIface = !g.cfg.DynFolders || rapid.IntRange(0, 4).Draw(t, "inlobj") > 0
				g.inInl = f.Name == "Jzz"
			} else if f.Type.Kind() == reflect.Interface && ParseTag(f.Tag.Get("struct")).OmitEmpty {
				g.omitIface = rapid.IntRange(0, 2).Draw(t, "omitdyn") > 0
			}
			out.Elems = append(out.Elems, g.val(t, typ.Field(i).Type, depth+1))
			g.inlineIface, g.omitIface = false, false
		}
		return out
	}
	// chan, func, complex: zero value
	return GoVal{Nil: true}
}

// deepNest draws an interface value holding k nested []interface{} /
// map[string]interface{} levels with scalar neighbours before and after the
// nested child.
func (g *valGen) deepNest(t *rapid.T, k int) GoVal {
	g.budget -= 2
	scalar := func() GoVal {
		return GoVal{Ptr: &GoVal{I: int64(rapid.IntRange(0, 99).Draw(t, "vdeeps"))}, Dyn: &TypeDesc{Kind: "int"}}
	}
	if k == 0 {
		return scalar()
	}
	child := g.deepNest(t, k-1)
	if rapid.IntRange(0, 3).Draw(t, "vdeepm") == 0 {
		inner := GoVal{Keys: []string{}, Elems: []GoVal{}}
		if rapid.Bool().Draw(t, "vdeepb") {
			inner.Keys, inner.Elems = append(inner.Keys, "a"), append(inner.Elems, scalar())
		}
		inner.Keys, inner.Elems = append(inner.Keys, "n"), append(inner.Elems, child)
		if rapid.Bool().Draw(t, "vdeepa") {
			inner.Keys, inner.Elems = append(inner.Keys, "z"), append(inner.Elems, scalar())
		}
		return GoVal{Ptr: &inner, Dyn: &TypeDesc{Kind: "map", Elem: &TypeDesc{Kind: "iface"}}}
	}
	inner := GoVal{Elems: []GoVal{}}
	if rapid.Bool().Draw(t, "vdeepb") {
		inner.Elems = append(inner.Elems, scalar())
	}
	inner.Elems = append(inner.Elems, child)
	if rapid.Bool().Draw(t, "vdeepa") {
		inner.Elems = append(inner.Elems, scalar())
	}
	return GoVal{Ptr: &inner, Dyn: &TypeDesc{Kind: "slice", Elem: &TypeDesc{Kind: "iface"}}}
}

// uniqueMemberNames renames members so that every object the struct type folds
// to has distinct keys (inlined structs share the namespace of their parent).
func uniqueMemberNames(td *TypeDesc, seen map[string]bool, n *int) {
	if td.Kind != "struct" {
		if td.Elem != nil {
			uniqueMemberNames(td.Elem, map[string]bool{}, n)
		}
		return
	}
	for i := range td.Fields {
		f := &td.Fields[i]
		if !exported(f.Name) {
			continue
		}
		o := ParseTag(reflect.StructTag(f.Tag).Get("struct"))
		if o.Omit {
			continue
		}
		if o.Inline {
			bt := &f.Type
			for bt.Kind == "ptr" {
				bt = bt.Elem
			}
			if bt.Kind == "struct" {
				uniqueMemberNames(bt, seen, n)
			}
			continue
		}
		name := FieldName(reflect.StructField{Name: f.Name}, o)
		if seen[name] {
			*n++
			opts := ""
			if o.OmitEmpty {
				opts = ",omitempty"
			}
			name = fmt.Sprintf("u%d", *n)
			f.Tag = `struct:"` + name + opts + `"`
		}
		seen[name] = true
		uniqueMemberNames(&f.Type, map[string]bool{}, n)
	}
}

// SampleValue is a fixed non-trivial value of the type: numbers 1, 2, ...,
// strings "s1", ..., slices of two elements, maps with the keys "k" and "",
// allocated pointers, interfaces holding an int. Deterministic (enumerations).
func SampleValue(typ reflect.Type) GoVal {
	n := 0
	return sampleValue(typ, &n, 0)
}

func sampleValue(typ reflect.Type, n *int, depth int) GoVal {
	*n++
	switch typ.Kind() {
	case reflect.Bool:
		return GoVal{B: *n%2 == 1}
	case reflect.String:
		return GoVal{S: []byte(fmt.Sprintf("s%d", *n))}
	case reflect.Int, reflect.Int8, reflect.Int16, reflect.Int32, reflect.Int64:
		return GoVal{I: int64(*n)}
	case reflect.Uint, reflect.Uint8, reflect.Uint16, reflect.Uint32, reflect.Uint64, reflect.Uintptr:
		return GoVal{U: uint64(*n)}
	case reflect.Float32:
		return GoVal{F: uint64(math.Float32bits(float32(*n) + 0.5))}
	case reflect.Float64:
		return GoVal{F: math.Float64bits(float64(*n) + 0.25)}
	case reflect.Ptr:
		if depth > 6 {
			return GoVal{Nil: true}
		}
		v := sampleValue(typ.Elem(), n, depth+1)
		return GoVal{Ptr: &v}
	case reflect.Interface:
		v := GoVal{I: int64(*n)}
		return GoVal{Ptr: &v, Dyn: &TypeDesc{Kind: "int"}}
	case reflect.Slice, reflect.Array:
		if depth > 6 {
			return GoVal{Nil: typ.Kind() == reflect.Slice}
		}
		l := 2
		if typ.Kind() == reflect.Array {
			l = typ.Len()
		}
		out := GoVal{Elems: []GoVal{}}
		for i := 0; i < l; i++ {
			out.Elems = append(out.Elems, sampleValue(typ.Elem(), n, depth+1))
		}
		return out
	case reflect.Map:
		if depth > 6 || typ.Key().Kind() != reflect.String {
			return GoVal{Nil: true}
		}
		return GoVal{Keys: []string{"k", ""}, Elems: []GoVal{sampleValue(typ.Elem(), n, depth+1), sampleValue(typ.Elem(), n, depth+1)}}
	case reflect.Struct:
		out := GoVal{}
		for i := 0; i < typ.NumField(); i++ {
			if depth > 6 {
				out.Elems = append(out.Elems, GoVal{Nil: true})
				continue
			}
			out.Elems = append(out.Elems, sampleValue(typ.Field(i).Type, n, depth+1))
		}
		return out
	}
	return GoVal{Nil: true}
}

// Materialize builds the described value as an addressable reflect.Value of typ.
func Materialize(typ reflect.Type, gv *GoVal) (rv reflect.Value, err error) {
	defer func() {
		if r := recover(); r != nil {
			err = fmt.Errorf("harness: cannot materialise %v: %v", typ, r)
		}
	}()
	rv = reflect.New(typ).Elem()
	fill(rv, gv)
	return rv, nil
}

func fill(rv reflect.Value, gv *GoVal) {
	typ := rv.Type()
	switch typ.Kind() {
	case reflect.Bool:
		rv.SetBool(gv.B)
	case reflect.String:
		rv.SetString(string(gv.S))
	case reflect.Int, reflect.Int8, reflect.Int16, reflect.Int32, reflect.Int64:
		rv.SetInt(gv.I)
	case reflect.Uint, reflect.Uint8, reflect.Uint16, reflect.Uint32, reflect.Uint64, reflect.Uintptr:
		rv.SetUint(gv.U)
	case reflect.Float32:
		// go through the bits to keep NaN payloads
		f := math.Float32frombits(uint32(gv.F))
		if rv.CanAddr() && typ == reflect.TypeOf(float32(0)) {
			*(rv.Addr().Interface().(*float32)) = f
		} else {
			rv.SetFloat(float64(f))
		}
	case reflect.Float64:
		rv.SetFloat(math.Float64frombits(gv.F))
	case reflect.Ptr:
		if gv.Nil || gv.Ptr == nil {
			return
		}
		p := reflect.New(typ.Elem())
		fill(p.Elem(), gv.Ptr)
		rv.Set(p)
	case reflect.Interface:
		if gv.Nil || gv.Ptr == nil || gv.Dyn == nil {
			return
		}
		dt := build(gv.Dyn)
		v := reflect.New(dt).Elem()
		fill(v, gv.Ptr)
		rv.Set(v)
	case reflect.Slice:
		if gv.Nil {
			return
		}
		s := reflect.MakeSlice(typ, len(gv.Elems), len(gv.Elems))
		for i := range gv.Elems {
			fill(s.Index(i), &gv.Elems[i])
		}
		rv.Set(s)
	case reflect.Array:
		for i := 0; i < typ.Len() && i < len(gv.Elems); i++ {
			fill(rv.Index(i), &gv.Elems[i])
		}
	case reflect.Map:
		if gv.Nil {
			return
		}
		m := reflect.MakeMap(typ)
		for i, k := range gv.Keys {
			if i >= len(gv.Elems) {
				break
			}
			v := reflect.New(typ.Elem()).Elem()
			fill(v, &gv.Elems[i])
			if typ.Key().Kind() == reflect.String {
				m.SetMapIndex(reflect.ValueOf(k).Convert(typ.Key()), v)
			} else {
				m.SetMapIndex(reflect.ValueOf(i+1).Convert(typ.Key()), v)
			}
		}
		rv.Set(m)
	case reflect.Struct:
		for i := 0; i < typ.NumField() && i < len(gv.Elems); i++ {
			f := rv.Field(i)
			if !f.CanSet() {
				// unexported field: write through unsafe-free route (NewAt needs unsafe); use reflect.NewAt
				f = reflect.NewAt(f.Type(), f.Addr().UnsafePointer()).Elem()
			}
			fill(f, &gv.Elems[i])
		}
	}
}
