package gomodel

import (
	"errors"
	"math"
	"reflect"
	"strings"
	"sync"

	structform "github.com/elastic/go-structform"
	"github.com/elastic/go-structform/gotype"

	"verif/harness/model"
)

// ExpInt is an integer with a custom folder (emits OnInt) and a custom
// stateful unfolder reached through the Expander interface. It round-trips.
type ExpInt struct{ V int64 }

func (e ExpInt) Fold(v structform.ExtVisitor) error { return v.OnInt(int(e.V)) }

func (e *ExpInt) Expand() gotype.UnfoldState { return &expIntState{to: e} }

type expIntState struct {
	gotype.BaseUnfoldState
	to *ExpInt
}

func (s *expIntState) OnInt(ctx gotype.UnfoldCtx, i int64) error {
	s.to.V = i
	ctx.Done()
	return nil
}

func (s *expIntState) OnUint(ctx gotype.UnfoldCtx, u uint64) error {
	if u > math.MaxInt64 {
		return errors.New("ExpInt: unsigned value out of range")
	}
	s.to.V = int64(u)
	ctx.Done()
	return nil
}

// ExpPair is an object-shaped value {"l": <string>, "r": <int>} with a custom
// folder and a stateful unfolder that handles keys and nested values itself.
type ExpPair struct {
	L string
	R int64
}

func (p ExpPair) Fold(v structform.ExtVisitor) error {
	if err := v.OnObjectStart(2, structform.AnyType); err != nil {
		return err
	}
	if err := v.OnKey("l"); err != nil {
		return err
	}
	if err := v.OnString(p.L); err != nil {
		return err
	}
	if err := v.OnKey("r"); err != nil {
		return err
	}
	if err := v.OnInt64(p.R); err != nil {
		return err
	}
	return v.OnObjectFinished()
}

func (p *ExpPair) Expand() gotype.UnfoldState { return &expPairState{to: p} }

type expPairState struct {
	gotype.BaseUnfoldState
	to      *ExpPair
	started bool
	key     string
}

func (s *expPairState) OnObjectStart(ctx gotype.UnfoldCtx, _ int, _ structform.BaseType) error {
	if s.started {
		return errors.New("ExpPair: nested object")
	}
	s.started = true
	return nil
}

func (s *expPairState) OnKey(ctx gotype.UnfoldCtx, key string) error {
	if !s.started {
		return errors.New("ExpPair: key before object start")
	}
	s.key = key
	return nil
}

func (s *expPairState) OnString(ctx gotype.UnfoldCtx, str string) error {
	if !s.started || s.key != "l" {
		return errors.New("ExpPair: unexpected string")
	}
	s.to.L = str
	return nil
}

func (s *expPairState) OnInt(ctx gotype.UnfoldCtx, i int64) error {
	if !s.started || s.key != "r" {
		return errors.New("ExpPair: unexpected integer")
	}
	s.to.R = i
	return nil
}

func (s *expPairState) OnUint(ctx gotype.UnfoldCtx, u uint64) error {
	if u > math.MaxInt64 {
		return errors.New("ExpPair: unsigned value out of range")
	}
	return s.OnInt(ctx, int64(u))
}

func (s *expPairState) OnObjectFinished(ctx gotype.UnfoldCtx) error {
	if !s.started {
		return errors.New("ExpPair: finish before start")
	}
	ctx.Done()
	return nil
}

var (
	expIntType  = reflect.TypeOf(ExpInt{})
	expPairType = reflect.TypeOf(ExpPair{})
)

func init() {
	Pool = append(Pool,
		PoolType{Name: "ExpInt", Type: expIntType},
		PoolType{Name: "ExpPair", Type: expPairType},
	)
	poolFolders[expIntType] = func(rv reflect.Value) model.V { return model.Int(rv.Field(0).Int()) }
	poolFolders[expPairType] = func(rv reflect.Value) model.V {
		return model.Obj(
			model.Member{Key: []byte("l"), Val: model.Str([]byte(rv.Field(0).String()))},
			model.Member{Key: []byte("r"), Val: model.Int(rv.Field(1).Int())})
	}
	// null: containers assign the zero value to an element themselves, without
	// asking the element's state; as a struct field the state refuses. The
	// statement leaves null open (see assign), so the models accept it as zero
	// and a refusal is fine too.
	poolAssign[expIntType] = func(dst reflect.Value, v model.V) error {
		if v.K == model.VNull {
			dst.Set(reflect.Zero(dst.Type()))
			return nil
		}
		if v.K != model.VInt || !v.N.IsInt64() {
			return errors.New("ExpInt accepts integers only")
		}
		dst.Field(0).SetInt(v.N.Int64())
		return nil
	}
	poolAssign[expPairType] = func(dst reflect.Value, v model.V) error {
		if v.K == model.VNull {
			dst.Set(reflect.Zero(dst.Type()))
			return nil
		}
		if v.K != model.VObj {
			return errors.New("ExpPair accepts objects only")
		}
		for _, m := range v.O {
			switch string(m.Key) {
			case "l":
				if m.Val.K != model.VStr {
					return errors.New("ExpPair.l must be a string")
				}
				dst.Field(0).SetString(string(m.Val.S))
			case "r":
				if m.Val.K != model.VInt || !m.Val.N.IsInt64() {
					return errors.New("ExpPair.r must be an integer")
				}
				dst.Field(1).SetInt(m.Val.N.Int64())
			default:
				return errors.New("ExpPair: unknown key")
			}
		}
		return nil
	}
}

// poolAssign holds the assignment models of pool types with custom unfolders.
var poolAssign = map[reflect.Type]func(dst reflect.Value, v model.V) error{}

// ---- user unfolders registered through the Unfolders(...) option ----

// UNum has a custom folder (OnInt64) and a *primitive* user unfolder.
type UNum struct{ N int64 }

func (u UNum) Fold(v structform.ExtVisitor) error { return v.OnInt64(u.N) }

// UnfoldUNum is the primitive unfolder of UNum.
func UnfoldUNum(to *UNum, v int64) error { to.N = v; return nil }

// UStr has a custom folder (OnString) and a primitive user unfolder.
type UStr struct{ S string }

func (u UStr) Fold(v structform.ExtVisitor) error { return v.OnString(u.S) }

// UnfoldUStr is the primitive unfolder of UStr.
func UnfoldUStr(to *UStr, s string) error { to.S = s; return nil }

// UProc is unfolded by a *processing* unfolder: the document is first unfolded
// into a temporary cell which is then copied into the target as a whole.
type UProc struct {
	A int
	B string
}

type uprocCell struct {
	A int
	B string
}

// UnfoldUProc is the processing unfolder of UProc.
func UnfoldUProc(to *UProc) (interface{}, func(*UProc, interface{}) error) {
	cell := &uprocCell{}
	return cell, func(to *UProc, c interface{}) error {
		tmp := c.(*uprocCell)
		to.A, to.B = tmp.A, tmp.B
		return nil
	}
}

// UTree is a RECURSIVE type unfolded by a processing unfolder: the cell of a
// UTree holds further UTrees, so several processing states of the same type are
// active at once while a nested document arrives.
type UTree struct {
	Name string
	Kids []UTree
}

type utreeCell struct {
	Name string
	Kids []UTree
}

// UnfoldUTree is the processing unfolder of UTree.
func UnfoldUTree(to *UTree) (interface{}, func(*UTree, interface{}) error) {
	cell := &utreeCell{}
	return cell, func(to *UTree, c interface{}) error {
		tmp := c.(*utreeCell)
		to.Name, to.Kids = tmp.Name, tmp.Kids
		return nil
	}
}

// UState is unfolded by a *stateful* user unfolder (func(*T) UnfoldState)
// that drives the shared state stack itself: the start state is replaced by the
// object state (Cont), the list member pushes a nested state (Push), both leave
// with Done. Shape: {"a": <int>, "l": [<int>...]}.
type UState struct {
	A int64
	L []int64
}

func (u UState) Fold(v structform.ExtVisitor) error {
	if err := v.OnObjectStart(2, structform.AnyType); err != nil {
		return err
	}
	if err := v.OnKey("a"); err != nil {
		return err
	}
	if err := v.OnInt64(u.A); err != nil {
		return err
	}
	if err := v.OnKey("l"); err != nil {
		return err
	}
	if err := v.OnArrayStart(len(u.L), structform.Int64Type); err != nil {
		return err
	}
	for _, x := range u.L {
		if err := v.OnInt64(x); err != nil {
			return err
		}
	}
	if err := v.OnArrayFinished(); err != nil {
		return err
	}
	return v.OnObjectFinished()
}

// UnfoldUState is the stateful unfolder of UState.
func UnfoldUState(to *UState) gotype.UnfoldState { return &uStateStart{to: to} }

type uStateStart struct {
	gotype.BaseUnfoldState
	to *UState
}

func (s *uStateStart) OnObjectStart(ctx gotype.UnfoldCtx, _ int, _ structform.BaseType) error {
	ctx.Cont(&uStateObj{to: s.to})
	return nil
}

type uStateObj struct {
	gotype.BaseUnfoldState
	to  *UState
	key string
}

func (s *uStateObj) OnKey(ctx gotype.UnfoldCtx, key string) error {
	if key != "a" && key != "l" {
		return errors.New("UState: unknown key")
	}
	s.key = key
	return nil
}

func (s *uStateObj) OnInt(ctx gotype.UnfoldCtx, i int64) error {
	if s.key != "a" {
		return errors.New("UState: unexpected integer")
	}
	s.to.A = i
	return nil
}

func (s *uStateObj) OnUint(ctx gotype.UnfoldCtx, u uint64) error {
	if u > math.MaxInt64 {
		return errors.New("UState: unsigned value out of range")
	}
	return s.OnInt(ctx, int64(u))
}

func (s *uStateObj) OnArrayStart(ctx gotype.UnfoldCtx, _ int, _ structform.BaseType) error {
	if s.key != "l" {
		return errors.New("UState: unexpected array")
	}
	s.to.L = []int64{}
	ctx.Push(&uStateList{to: s.to})
	return nil
}

func (s *uStateObj) OnObjectFinished(ctx gotype.UnfoldCtx) error {
	ctx.Done()
	return nil
}

type uStateList struct {
	gotype.BaseUnfoldState
	to *UState
}

func (s *uStateList) OnInt(ctx gotype.UnfoldCtx, i int64) error {
	s.to.L = append(s.to.L, i)
	return nil
}

func (s *uStateList) OnUint(ctx gotype.UnfoldCtx, u uint64) error {
	if u > math.MaxInt64 {
		return errors.New("UState: unsigned value out of range")
	}
	return s.OnInt(ctx, int64(u))
}

func (s *uStateList) OnArrayFinished(ctx gotype.UnfoldCtx) error {
	ctx.Done()
	return nil
}

// UNorm is unfolded by a processing unfolder that uses the TARGET ITSELF as its
// cell ("reuse cell and post process"): the library unfolds into the target with
// its default struct unfolder and then calls the post-processing function,
// which normalises the value (upper-case B, absolute A).
type UNorm struct {
	A int
	B string
}

func (u UNorm) Fold(v structform.ExtVisitor) error {
	if err := v.OnObjectStart(2, structform.AnyType); err != nil {
		return err
	}
	if err := v.OnKey("a"); err != nil {
		return err
	}
	if err := v.OnInt(u.A); err != nil {
		return err
	}
	if err := v.OnKey("b"); err != nil {
		return err
	}
	if err := v.OnString(u.B); err != nil {
		return err
	}
	return v.OnObjectFinished()
}

func normaliseUNorm(to *UNorm) {
	to.B = strings.ToUpper(to.B)
	if to.A < 0 && to.A != math.MinInt {
		to.A = -to.A
	}
}

// UnfoldUNorm is the processing unfolder of UNorm.
func UnfoldUNorm(to *UNorm) (interface{}, func(*UNorm, interface{}) error) {
	return to, func(to *UNorm, _ interface{}) error {
		normaliseUNorm(to)
		return nil
	}
}

// UnfoldOptions returns the option registering the user unfolders above.
func UnfoldOptions() gotype.UnfoldOption {
	// ONE option value for the whole process, as an application would keep it
	// in a package variable: whatever the option value holds is shared by all
	// unfolders created from it
	unfoldOptsOnce.Do(func() {
		unfoldOpts = gotype.Unfolders(append([]interface{}{UnfoldUNum, UnfoldUStr, UnfoldUProc, UnfoldUState, UnfoldUNorm, UnfoldUTree}, upUnfolders...)...)
	})
	return unfoldOpts
}

var (
	unfoldOptsOnce sync.Once
	unfoldOpts     gotype.UnfoldOption
)

var (
	uNumType   = reflect.TypeOf(UNum{})
	uStrType   = reflect.TypeOf(UStr{})
	uProcType  = reflect.TypeOf(UProc{})
	uStateType = reflect.TypeOf(UState{})
	uNormType  = reflect.TypeOf(UNorm{})
	uTreeType  = reflect.TypeOf(UTree{})
)

// UsesUserUnfolder reports whether a target of type t needs UnfoldOptions.
func UsesUserUnfolder(t reflect.Type) bool {
	return usesAny(t, 0, map[reflect.Type]bool{}, append([]reflect.Type{uNumType, uStrType, uProcType, uStateType, uNormType, uTreeType}, upTypes...)...)
}

func usesAny(t reflect.Type, depth int, seen map[reflect.Type]bool, wanted ...reflect.Type) bool {
	if depth > 12 || seen[t] {
		return false
	}
	seen[t] = true
	for _, w := range wanted {
		if t == w {
			return true
		}
	}
	switch t.Kind() {
	case reflect.Ptr, reflect.Slice, reflect.Array, reflect.Map:
		return usesAny(t.Elem(), depth+1, seen, wanted...)
	case reflect.Struct:
		for i := 0; i < t.NumField(); i++ {
			if usesAny(t.Field(i).Type, depth+1, seen, wanted...) {
				return true
			}
		}
	}
	return false
}

func init() {
	Pool = append(Pool,
		PoolType{Name: "UNum", Type: uNumType, NeedsUnfoldOpts: true},
		PoolType{Name: "UStr", Type: uStrType, NeedsUnfoldOpts: true},
		PoolType{Name: "UProc", Type: uProcType, NeedsUnfoldOpts: true},
		PoolType{Name: "UTree", Type: uTreeType, NeedsUnfoldOpts: true, Recursive: true},
		PoolType{Name: "UState", Type: uStateType, NeedsUnfoldOpts: true},
		PoolType{Name: "UNorm", Type: uNormType, NeedsUnfoldOpts: true, Normalises: true},
	)
	poolFolders[uNormType] = func(rv reflect.Value) model.V {
		return model.Obj(
			model.Member{Key: []byte("a"), Val: model.Int(rv.Field(0).Int())},
			model.Member{Key: []byte("b"), Val: model.Str([]byte(rv.Field(1).String()))})
	}
	poolAssign[uNormType] = func(dst reflect.Value, v model.V) error {
		if v.K == model.VNull {
			dst.Set(reflect.Zero(dst.Type()))
			return nil
		}
		if v.K != model.VObj {
			return errors.New("UNorm accepts objects only")
		}
		// the target itself is the cell: members are assigned in place (what is
		// not mentioned stays), then the value is normalised
		tmp := reflect.New(reflect.TypeOf(uprocCell{})).Elem()
		tmp.Field(0).SetInt(dst.Field(0).Int())
		tmp.Field(1).SetString(dst.Field(1).String())
		if err := assign(tmp, v, "$", 1); err != nil {
			return err
		}
		n := UNorm{A: int(tmp.Field(0).Int()), B: tmp.Field(1).String()}
		normaliseUNorm(&n)
		dst.Set(reflect.ValueOf(n))
		return nil
	}
	poolFolders[uStateType] = func(rv reflect.Value) model.V {
		l := model.V{K: model.VArr, A: []model.V{}}
		for i := 0; i < rv.Field(1).Len(); i++ {
			l.A = append(l.A, model.Int(rv.Field(1).Index(i).Int()))
		}
		return model.Obj(
			model.Member{Key: []byte("a"), Val: model.Int(rv.Field(0).Int())},
			model.Member{Key: []byte("l"), Val: l})
	}
	poolAssign[uStateType] = func(dst reflect.Value, v model.V) error {
		if v.K == model.VNull {
			dst.Set(reflect.Zero(dst.Type()))
			return nil
		}
		if v.K != model.VObj {
			return errors.New("UState accepts objects only")
		}
		intOf := func(x model.V) (int64, error) {
			if x.K != model.VInt || !x.N.IsInt64() {
				return 0, errors.New("UState holds integers only")
			}
			return x.N.Int64(), nil
		}
		for _, m := range v.O {
			switch string(m.Key) {
			case "a":
				i, err := intOf(m.Val)
				if err != nil {
					return err
				}
				dst.Field(0).SetInt(i)
			case "l":
				if m.Val.K != model.VArr {
					return errors.New("UState.l must be an array")
				}
				l := reflect.MakeSlice(dst.Field(1).Type(), 0, len(m.Val.A))
				for _, e := range m.Val.A {
					i, err := intOf(e)
					if err != nil {
						return err
					}
					l = reflect.Append(l, reflect.ValueOf(i))
				}
				dst.Field(1).Set(l)
			default:
				return errors.New("UState: unknown key")
			}
		}
		return nil
	}
	poolFolders[uNumType] = func(rv reflect.Value) model.V { return model.Int(rv.Field(0).Int()) }
	poolFolders[uStrType] = func(rv reflect.Value) model.V { return model.Str([]byte(rv.Field(0).String())) }
	poolAssign[uNumType] = func(dst reflect.Value, v model.V) error {
		switch v.K {
		case model.VNull:
			dst.Field(0).SetInt(0)
		case model.VInt:
			noteFit(dst.Field(0), v)
			if v.N.IsInt64() {
				dst.Field(0).SetInt(v.N.Int64())
			} else {
				dst.Field(0).SetInt(int64(v.N.Uint64()))
			}
		case model.VFloat:
			noteFit(dst.Field(0), v)
			dst.Field(0).SetInt(int64(v.Float()))
		default:
			return errors.New("UNum accepts numbers only")
		}
		return nil
	}
	poolAssign[uStrType] = func(dst reflect.Value, v model.V) error {
		switch v.K {
		case model.VNull:
			dst.Field(0).SetString("")
		case model.VStr:
			dst.Field(0).SetString(string(v.S))
		default:
			return errors.New("UStr accepts strings only")
		}
		return nil
	}
	poolAssign[uTreeType] = func(dst reflect.Value, v model.V) error {
		if v.K == model.VNull {
			dst.Set(reflect.Zero(dst.Type()))
			return nil
		}
		if v.K != model.VObj {
			return errors.New("UTree accepts objects only")
		}
		// the temporary cell starts from zero and replaces the target as a whole
		tmp := reflect.New(reflect.TypeOf(utreeCell{})).Elem()
		if err := assign(tmp, v, "$", 1); err != nil {
			return err
		}
		dst.Field(0).SetString(tmp.Field(0).String())
		dst.Field(1).Set(tmp.Field(1))
		return nil
	}
	poolAssign[uProcType] = func(dst reflect.Value, v model.V) error {
		if v.K == model.VNull {
			// null assigns the zero value, as everywhere (the cell stays zero
			// and replaces the target)
			dst.Field(0).SetInt(0)
			dst.Field(1).SetString("")
			return nil
		}
		if v.K != model.VObj {
			return errors.New("UProc accepts objects only")
		}
		// the temporary cell starts from zero and replaces the target as a whole
		tmp := reflect.New(reflect.TypeOf(uprocCell{})).Elem()
		if err := assign(tmp, v, "$", 1); err != nil {
			return err
		}
		dst.Field(0).SetInt(tmp.Field(0).Int())
		dst.Field(1).SetString(tmp.Field(1).String())
		return nil
	}
}
