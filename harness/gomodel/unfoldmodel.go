package gomodel

import (
	"fmt"
	"reflect"
)

// MayRefuse reports why an Unfolder may legitimately refuse a target of type t
// ("" = the type is supported and must round-trip): Go arrays, unsupported
// kinds, non-string map keys, inline on anything but a direct struct,
// inline+omitempty, duplicate member names.
func MayRefuse(t reflect.Type) string {
	return mayRefuse(t, map[reflect.Type]bool{})
}

func mayRefuse(t reflect.Type, seen map[reflect.Type]bool) string {
	if seen[t] {
		return ""
	}
	seen[t] = true
	if _, ok := poolAssign[t]; ok {
		return "" // custom unfolder (Expander)
	}
	switch t.Kind() {
	case reflect.Bool, reflect.String, reflect.Int, reflect.Int8, reflect.Int16, reflect.Int32, reflect.Int64,
		reflect.Uint, reflect.Uint8, reflect.Uint16, reflect.Uint32, reflect.Uint64, reflect.Float32, reflect.Float64:
		return ""
	case reflect.Interface:
		if t.NumMethod() != 0 {
			return "non-empty interface"
		}
		return ""
	case reflect.Ptr, reflect.Slice:
		return mayRefuse(t.Elem(), seen)
	case reflect.Array:
		return "array"
	case reflect.Map:
		if t.Key().Kind() != reflect.String {
			return "map key " + t.Key().Kind().String()
		}
		if t.Key() != reflect.TypeOf("") {
			return "named map key type " + t.Key().Name()
		}
		return mayRefuse(t.Elem(), seen)
	case reflect.Struct:
		names := map[string]bool{}
		return structRefuse(t, names, seen)
	}
	return "kind " + t.Kind().String()
}

func structRefuse(t reflect.Type, names map[string]bool, seen map[reflect.Type]bool) string {
	for i := 0; i < t.NumField(); i++ {
		f := t.Field(i)
		if !exported(f.Name) {
			continue
		}
		o := ParseTag(f.Tag.Get("struct"))
		if o.Omit {
			continue
		}
		if o.Inline {
			if o.OmitEmpty {
				return "inline+omitempty"
			}
			if f.Type.Kind() != reflect.Struct {
				return "inline on " + f.Type.Kind().String()
			}
			if _, ok := poolFolders[f.Type]; ok {
				return "inline folder"
			}
			if r := structRefuse(f.Type, names, seen); r != "" {
				return r
			}
			continue
		}
		n := FieldName(f, o)
		if names[n] {
			return fmt.Sprintf("duplicate member name %q", n)
		}
		names[n] = true
		if r := mayRefuse(f.Type, seen); r != "" {
			return r
		}
	}
	return ""
}

// DroppedNotZero walks a reconstructed value and returns the path of the
// first field that the documented rules never transmit (unexported, "-",
// omit) yet is not zero — an unfolder must not write there.
func DroppedNotZero(rv reflect.Value) string {
	return droppedNotZero(rv, "$", 0)
}

func droppedNotZero(rv reflect.Value, path string, depth int) string {
	if depth > 100 || !rv.IsValid() {
		return ""
	}
	switch rv.Kind() {
	case reflect.Ptr, reflect.Interface:
		if rv.IsNil() {
			return ""
		}
		return droppedNotZero(rv.Elem(), path, depth+1)
	case reflect.Slice, reflect.Array:
		for i := 0; i < rv.Len(); i++ {
			if p := droppedNotZero(rv.Index(i), fmt.Sprintf("%s[%d]", path, i), depth+1); p != "" {
				return p
			}
		}
	case reflect.Map:
		it := rv.MapRange()
		for it.Next() {
			if p := droppedNotZero(it.Value(), fmt.Sprintf("%s[%q]", path, it.Key()), depth+1); p != "" {
				return p
			}
		}
	case reflect.Struct:
		if _, ok := poolFolders[rv.Type()]; ok {
			return ""
		}
		t := rv.Type()
		for i := 0; i < t.NumField(); i++ {
			f := t.Field(i)
			o := ParseTag(f.Tag.Get("struct"))
			if !exported(f.Name) || o.Omit {
				if !rv.Field(i).IsZero() {
					return path + "." + f.Name
				}
				continue
			}
			if p := droppedNotZero(rv.Field(i), path+"."+f.Name, depth+1); p != "" {
				return p
			}
		}
	}
	return ""
}
