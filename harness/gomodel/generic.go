package gomodel

import (
	"fmt"
	"math"
	"reflect"

	structform "github.com/elastic/go-structform"

	"verif/harness/model"
)

// ExpectGeneric computes the generic Go value an Unfolder must build in an
// empty interface{} for a well-formed stream holding one value: string-keyed
// maps, slices and scalars typed by the delivering event; typed slices/maps
// where the stream announces an element type; duplicate members: last wins.
func ExpectGeneric(evs []model.Ev) (any, error) {
	p := &genericBuilder{evs: model.ExpandAll(evs)}
	v, err := p.value()
	if err != nil {
		return nil, err
	}
	if p.pos != len(p.evs) {
		return nil, fmt.Errorf("trailing events")
	}
	return v, nil
}

type genericBuilder struct {
	evs []model.Ev
	pos int
}

func scalarGo(e model.Ev) (any, bool) {
	switch e.K {
	case model.KNil:
		return nil, true
	case model.KBool:
		return e.B, true
	case model.KStr, model.KStrRef:
		return string(e.S), true
	case model.KI8:
		return int8(e.I), true
	case model.KI16:
		return int16(e.I), true
	case model.KI32:
		return int32(e.I), true
	case model.KI64:
		return e.I, true
	case model.KInt:
		return int(e.I), true
	case model.KByte, model.KU8:
		return uint8(e.U), true
	case model.KU16:
		return uint16(e.U), true
	case model.KU32:
		return uint32(e.U), true
	case model.KU64:
		return e.U, true
	case model.KUint:
		return uint(e.U), true
	case model.KF32:
		return math.Float32frombits(uint32(e.F)), true
	case model.KF64:
		return math.Float64frombits(e.F), true
	}
	return nil, false
}

var baseGoTypes = map[structform.BaseType]reflect.Type{
	structform.BoolType: reflect.TypeOf(false), structform.StringType: reflect.TypeOf(""),
	structform.ByteType: reflect.TypeOf(uint8(0)), structform.Uint8Type: reflect.TypeOf(uint8(0)),
	structform.IntType: reflect.TypeOf(int(0)), structform.Int8Type: reflect.TypeOf(int8(0)), structform.Int16Type: reflect.TypeOf(int16(0)),
	structform.Int32Type: reflect.TypeOf(int32(0)), structform.Int64Type: reflect.TypeOf(int64(0)),
	structform.UintType: reflect.TypeOf(uint(0)), structform.Uint16Type: reflect.TypeOf(uint16(0)), structform.Uint32Type: reflect.TypeOf(uint32(0)),
	structform.Uint64Type: reflect.TypeOf(uint64(0)), structform.Float32Type: reflect.TypeOf(float32(0)), structform.Float64Type: reflect.TypeOf(float64(0)),
}

func elemType(bt structform.BaseType) reflect.Type {
	if t, ok := baseGoTypes[bt]; ok {
		return t
	}
	return ifaceType // AnyType, ZeroType
}

func (p *genericBuilder) value() (any, error) {
	if p.pos >= len(p.evs) {
		return nil, fmt.Errorf("value expected at end")
	}
	e := p.evs[p.pos]
	if v, ok := scalarGo(e); ok {
		p.pos++
		return v, nil
	}
	switch e.K {
	case model.KArrStart:
		p.pos++
		et := elemType(structform.BaseType(e.T))
		s := reflect.MakeSlice(reflect.SliceOf(et), 0, 0)
		for {
			if p.pos >= len(p.evs) {
				return nil, fmt.Errorf("unterminated array")
			}
			if p.evs[p.pos].K == model.KArrEnd {
				p.pos++
				return s.Interface(), nil
			}
			v, err := p.value()
			if err != nil {
				return nil, err
			}
			s = reflect.Append(s, asElem(v, et))
		}
	case model.KObjStart:
		p.pos++
		et := elemType(structform.BaseType(e.T))
		m := reflect.MakeMap(reflect.MapOf(reflect.TypeOf(""), et))
		for {
			if p.pos >= len(p.evs) {
				return nil, fmt.Errorf("unterminated object")
			}
			k := p.evs[p.pos]
			if k.K == model.KObjEnd {
				p.pos++
				return m.Interface(), nil
			}
			if k.K != model.KKey && k.K != model.KKeyRef {
				return nil, fmt.Errorf("key expected")
			}
			p.pos++
			v, err := p.value()
			if err != nil {
				return nil, err
			}
			m.SetMapIndex(reflect.ValueOf(string(k.S)), asElem(v, et))
		}
	}
	return nil, fmt.Errorf("unexpected event %v", e)
}

func asElem(v any, et reflect.Type) reflect.Value {
	if v == nil {
		return reflect.Zero(et)
	}
	rv := reflect.ValueOf(v)
	if et.Kind() == reflect.Interface {
		out := reflect.New(et).Elem()
		out.Set(rv)
		return out
	}
	if rv.Type() != et && rv.Type().ConvertibleTo(et) {
		return rv.Convert(et)
	}
	return rv
}

// GoEqual compares two Go values of the same static type: typed positions
// exactly (floats: same bits or both NaN), nil == empty for slices and maps,
// interface{} positions: same dynamic types for generic data when strict, else
// as values. It returns "" or the path of the first difference.
func GoEqual(a, b reflect.Value, strictIface bool) string {
	return goEqual(a, b, "$", eqOpts{strict: strictIface, rules: model.Rules{AllUnordered: true, AnyNaN: true}}, 0)
}

// GoEqualRoute is GoEqual (non-strict) for values that travelled through a
// codec: interface{} contents are compared under the codec's representation
// rules, and through JSON -0 == 0.
func GoEqualRoute(a, b reflect.Value, rules model.Rules) string {
	rules.AllUnordered, rules.AnyNaN = true, true
	return goEqual(a, b, "$", eqOpts{rules: rules, floatNumeric: rules.JSONFloat}, 0)
}

type eqOpts struct {
	strict       bool
	rules        model.Rules
	floatNumeric bool
}

func goEqual(a, b reflect.Value, path string, o eqOpts, depth int) string {
	strict := o.strict
	if depth > 300 {
		return ""
	}
	if a.IsValid() != b.IsValid() {
		return fmt.Sprintf("%s: %v vs %v", path, show(a), show(b))
	}
	if !a.IsValid() {
		return ""
	}
	if a.Type() != b.Type() {
		return fmt.Sprintf("%s: Go type %v vs %v (%v vs %v)", path, a.Type(), b.Type(), show(a), show(b))
	}
	switch a.Kind() {
	case reflect.Bool:
		if a.Bool() != b.Bool() {
			return fmt.Sprintf("%s: %v vs %v", path, a.Bool(), b.Bool())
		}
	case reflect.Int, reflect.Int8, reflect.Int16, reflect.Int32, reflect.Int64:
		if a.Int() != b.Int() {
			return fmt.Sprintf("%s: %v vs %v", path, a.Int(), b.Int())
		}
	case reflect.Uint, reflect.Uint8, reflect.Uint16, reflect.Uint32, reflect.Uint64, reflect.Uintptr:
		if a.Uint() != b.Uint() {
			return fmt.Sprintf("%s: %v vs %v", path, a.Uint(), b.Uint())
		}
	case reflect.Float32, reflect.Float64:
		fa, fb := a.Float(), b.Float()
		if o.floatNumeric && fa == fb {
			return ""
		}
		if !(fa == fb && math.Signbit(fa) == math.Signbit(fb)) && !(math.IsNaN(fa) && math.IsNaN(fb)) {
			return fmt.Sprintf("%s: %v vs %v", path, fa, fb)
		}
	case reflect.String:
		if a.String() != b.String() {
			return fmt.Sprintf("%s: %q vs %q", path, a.String(), b.String())
		}
	case reflect.Ptr:
		if a.IsNil() != b.IsNil() {
			return fmt.Sprintf("%s: nil pointer vs non-nil pointer (%v vs %v)", path, show(a), show(b))
		}
		if !a.IsNil() {
			return goEqual(a.Elem(), b.Elem(), path, o, depth+1)
		}
	case reflect.Interface:
		if a.IsNil() != b.IsNil() {
			return fmt.Sprintf("%s: %v vs %v", path, show(a), show(b))
		}
		if a.IsNil() {
			return ""
		}
		if strict {
			return goEqual(a.Elem(), b.Elem(), path, o, depth+1)
		}
		va, e1 := FoldModel(a.Elem())
		vb, e2 := FoldModel(b.Elem())
		if e1 != nil || e2 != nil {
			return fmt.Sprintf("%s: cannot model interface contents: %v %v", path, e1, e2)
		}
		if d := model.Diff(va, vb, o.rules); d != "" {
			return path + ": interface{} contents differ: " + d
		}
	case reflect.Slice, reflect.Array:
		if a.Len() != b.Len() {
			return fmt.Sprintf("%s: length %d vs %d (%v vs %v)", path, a.Len(), b.Len(), show(a), show(b))
		}
		for i := 0; i < a.Len(); i++ {
			if d := goEqual(a.Index(i), b.Index(i), fmt.Sprintf("%s[%d]", path, i), o, depth+1); d != "" {
				return d
			}
		}
	case reflect.Map:
		if a.Len() != b.Len() {
			return fmt.Sprintf("%s: %d entries vs %d (%v vs %v)", path, a.Len(), b.Len(), show(a), show(b))
		}
		it := a.MapRange()
		for it.Next() {
			bv := b.MapIndex(it.Key())
			if !bv.IsValid() {
				return fmt.Sprintf("%s: key %q missing on one side", path, it.Key())
			}
			if d := goEqual(it.Value(), bv, fmt.Sprintf("%s[%q]", path, it.Key()), o, depth+1); d != "" {
				return d
			}
		}
	case reflect.Struct:
		for i := 0; i < a.NumField(); i++ {
			if d := goEqual(a.Field(i), b.Field(i), path+"."+a.Type().Field(i).Name, o, depth+1); d != "" {
				return d
			}
		}
	}
	return ""
}

func show(v reflect.Value) string {
	if !v.IsValid() {
		return "<invalid>"
	}
	defer func() { recover() }()
	if v.CanInterface() {
		s := fmt.Sprintf("%#v", v.Interface())
		if len(s) > 200 {
			s = s[:200] + "…"
		}
		return s
	}
	return v.String()
}
