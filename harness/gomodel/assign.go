package gomodel

import (
	"fmt"
	"math"
	"math/big"
	"reflect"

	"verif/harness/model"
)

// Assign is the reference model of unfolding value v into dst (addressable):
// matching fields/elements are assigned with numeric conversion, fields the
// value does not mention stay untouched, members without a matching struct
// field are skipped with their whole value; duplicate members: last wins. An
// error means shape mismatch (the model refuses; the library must return an
// error too).
func Assign(dst reflect.Value, v model.V) error {
	_, err := AssignTrack(dst, v)
	return err
}

// AssignTrack is Assign and additionally reports whether some number did not
// fit its target kind (the statement only speaks about values that fit; the
// result is then not compared).
func AssignTrack(dst reflect.Value, v model.V) (lossy bool, err error) {
	lossyFlag = false
	err = assign(dst, v, "$", 0)
	return lossyFlag, err
}

var lossyFlag bool

func noteFit(dst reflect.Value, v model.V) {
	switch v.K {
	case model.VInt:
		switch dst.Kind() {
		case reflect.Int, reflect.Int8, reflect.Int16, reflect.Int32, reflect.Int64:
			if !v.N.IsInt64() || dst.OverflowInt(v.N.Int64()) {
				lossyFlag = true
			}
		case reflect.Uint, reflect.Uint8, reflect.Uint16, reflect.Uint32, reflect.Uint64:
			if !v.N.IsUint64() || dst.OverflowUint(v.N.Uint64()) {
				lossyFlag = true
			}
		case reflect.Float32:
			if new(big.Int).Abs(v.N).Cmp(big.NewInt(1<<24)) > 0 {
				lossyFlag = true
			}
		case reflect.Float64:
			if new(big.Int).Abs(v.N).Cmp(big.NewInt(1<<53)) > 0 {
				lossyFlag = true
			}
		}
	case model.VFloat:
		f := v.Float()
		switch dst.Kind() {
		case reflect.Float32:
			if !v.F32 && float64(float32(f)) != f && !math.IsNaN(f) {
				lossyFlag = true
			}
		case reflect.Float64:
		default:
			// float into an integer target: fits only if integral and in range
			if f != math.Trunc(f) || math.IsNaN(f) || math.IsInf(f, 0) || math.Abs(f) >= 1<<63 {
				lossyFlag = true
				return
			}
			switch dst.Kind() {
			case reflect.Int, reflect.Int8, reflect.Int16, reflect.Int32, reflect.Int64:
				if dst.OverflowInt(int64(f)) {
					lossyFlag = true
				}
			default:
				if f < 0 || dst.OverflowUint(uint64(f)) {
					lossyFlag = true
				}
			}
		}
	}
}

func mismatch(path string, dst reflect.Value, v model.V) error {
	return fmt.Errorf("%s: %v does not fit a %v target", path, v.K, dst.Type())
}

func assign(dst reflect.Value, v model.V, path string, depth int) error {
	if depth > 300 {
		return nil
	}
	if f, ok := poolAssign[dst.Type()]; ok {
		return f(dst, v)
	}
	if v.K == model.VNull {
		// null assigns the zero value wherever it is accepted at all (whether a
		// null is accepted for a container-typed struct field is left open by the
		// statement; the library refuses it there, which is an error = fine)
		dst.Set(reflect.Zero(dst.Type()))
		return nil
	}
	switch dst.Kind() {
	case reflect.Interface:
		g := GenericFromV(v)
		if g == nil {
			dst.Set(reflect.Zero(dst.Type()))
		} else {
			dst.Set(reflect.ValueOf(g))
		}
		return nil
	case reflect.Ptr:
		if v.K == model.VNull {
			dst.Set(reflect.Zero(dst.Type()))
			return nil
		}
		n := reflect.New(dst.Type().Elem())
		if err := assign(n.Elem(), v, path, depth+1); err != nil {
			return err
		}
		dst.Set(n)
		return nil
	case reflect.Bool:
		switch v.K {
		case model.VBool:
			dst.SetBool(v.B)
		case model.VNull:
			dst.SetBool(false)
		default:
			return mismatch(path, dst, v)
		}
	case reflect.String:
		switch v.K {
		case model.VStr:
			dst.SetString(string(v.S))
		case model.VNull:
			dst.SetString("")
		default:
			return mismatch(path, dst, v)
		}
	case reflect.Int, reflect.Int8, reflect.Int16, reflect.Int32, reflect.Int64:
		noteFit(dst, v)
		switch v.K {
		case model.VInt:
			if v.N.IsInt64() {
				dst.SetInt(v.N.Int64())
			} else {
				dst.SetInt(int64(v.N.Uint64()))
			}
		case model.VFloat:
			dst.SetInt(int64(v.Float()))
		case model.VNull:
			dst.SetInt(0)
		default:
			return mismatch(path, dst, v)
		}
	case reflect.Uint, reflect.Uint8, reflect.Uint16, reflect.Uint32, reflect.Uint64:
		noteFit(dst, v)
		switch v.K {
		case model.VInt:
			if v.N.IsUint64() {
				dst.SetUint(v.N.Uint64())
			} else {
				dst.SetUint(uint64(v.N.Int64()))
			}
		case model.VFloat:
			dst.SetUint(uint64(v.Float()))
		case model.VNull:
			dst.SetUint(0)
		default:
			return mismatch(path, dst, v)
		}
	case reflect.Float32, reflect.Float64:
		noteFit(dst, v)
		switch v.K {
		case model.VFloat:
			dst.SetFloat(v.Float())
		case model.VInt:
			f, _ := new(big.Float).SetInt(v.N).Float64()
			dst.SetFloat(f)
		case model.VNull:
			dst.SetFloat(0)
		default:
			return mismatch(path, dst, v)
		}
	case reflect.Slice:
		if v.K != model.VArr {
			return mismatch(path, dst, v)
		}
		s := reflect.MakeSlice(dst.Type(), len(v.A), len(v.A))
		for i := range v.A {
			if err := assign(s.Index(i), v.A[i], fmt.Sprintf("%s[%d]", path, i), depth+1); err != nil {
				return err
			}
		}
		dst.Set(s)
	case reflect.Map:
		if v.K != model.VObj || dst.Type().Key().Kind() != reflect.String {
			return mismatch(path, dst, v)
		}
		if dst.IsNil() {
			dst.Set(reflect.MakeMap(dst.Type()))
		}
		for _, m := range v.O {
			e := reflect.New(dst.Type().Elem()).Elem()
			if err := assign(e, m.Val, fmt.Sprintf("%s[%q]", path, m.Key), depth+1); err != nil {
				return err
			}
			dst.SetMapIndex(reflect.ValueOf(string(m.Key)).Convert(dst.Type().Key()), e)
		}
	case reflect.Struct:
		if v.K != model.VObj {
			return mismatch(path, dst, v)
		}
		fields := StructFields(dst.Type())
		for _, m := range v.O {
			idx, ok := fields[string(m.Key)]
			if !ok {
				continue // unknown member: skipped with its whole value
			}
			f := dst.FieldByIndex(idx)
			if err := assign(f, m.Val, path+"."+string(m.Key), depth+1); err != nil {
				return err
			}
		}
	default:
		return fmt.Errorf("%s: unsupported target kind %v", path, dst.Kind())
	}
	return nil
}

// StructFields maps member names to field index paths (inline structs are
// flattened), following the documented naming rule.
func StructFields(t reflect.Type) map[string][]int {
	out := map[string][]int{}
	structFields(t, nil, out)
	return out
}

func structFields(t reflect.Type, prefix []int, out map[string][]int) {
	for i := 0; i < t.NumField(); i++ {
		f := t.Field(i)
		if !exported(f.Name) {
			continue
		}
		o := ParseTag(f.Tag.Get("struct"))
		if o.Omit {
			continue
		}
		idx := append(append([]int{}, prefix...), i)
		if o.Inline && f.Type.Kind() == reflect.Struct {
			structFields(f.Type, idx, out)
			continue
		}
		out[FieldName(f, o)] = idx
	}
}

// SliceLens walks a target that was NOT empty before unfolding along the
// stream's value and reports the first slice whose length is not the number of
// elements of the stream's array ("assigns every element": an array of n
// elements makes a slice of n elements, whatever the variable held before).
// Nothing is said about the contents of re-used elements.
func SliceLens(dst reflect.Value, v model.V, path string, depth int) string {
	if depth > 200 {
		return ""
	}
	for dst.Kind() == reflect.Ptr {
		if dst.IsNil() {
			return ""
		}
		dst = dst.Elem()
	}
	if _, ok := poolAssign[dst.Type()]; ok {
		return ""
	}
	switch dst.Kind() {
	case reflect.Slice:
		if v.K != model.VArr {
			return ""
		}
		if dst.Len() != len(v.A) {
			return fmt.Sprintf("%s: the stream's array has %d elements, the slice has %d", path, len(v.A), dst.Len())
		}
		for i := range v.A {
			if m := SliceLens(dst.Index(i), v.A[i], fmt.Sprintf("%s[%d]", path, i), depth+1); m != "" {
				return m
			}
		}
	case reflect.Map:
		if v.K != model.VObj || dst.Type().Key().Kind() != reflect.String {
			return ""
		}
		last := map[string]model.V{}
		for _, m := range v.O {
			last[string(m.Key)] = m.Val
		}
		for k, mv := range last {
			e := dst.MapIndex(reflect.ValueOf(k).Convert(dst.Type().Key()))
			if !e.IsValid() {
				continue
			}
			if m := SliceLens(e, mv, fmt.Sprintf("%s[%q]", path, k), depth+1); m != "" {
				return m
			}
		}
	case reflect.Struct:
		if v.K != model.VObj {
			return ""
		}
		fields := StructFields(dst.Type())
		last := map[string]model.V{}
		for _, m := range v.O {
			last[string(m.Key)] = m.Val
		}
		for k, mv := range last {
			idx, ok := fields[k]
			if !ok {
				continue
			}
			if m := SliceLens(dst.FieldByIndex(idx), mv, path+"."+k, depth+1); m != "" {
				return m
			}
		}
	}
	return ""
}

// GenericFromV renders a value as generic Go data (for interface{} targets;
// compared at value level only).
func GenericFromV(v model.V) any {
	switch v.K {
	case model.VNull:
		return nil
	case model.VBool:
		return v.B
	case model.VInt:
		if v.N.IsInt64() {
			return v.N.Int64()
		}
		return v.N.Uint64()
	case model.VFloat:
		if v.F32 {
			return math.Float32frombits(uint32(v.Bits))
		}
		return math.Float64frombits(v.Bits)
	case model.VStr:
		return string(v.S)
	case model.VArr:
		out := make([]interface{}, len(v.A))
		for i, e := range v.A {
			out[i] = GenericFromV(e)
		}
		return out
	case model.VObj:
		out := make(map[string]interface{}, len(v.O))
		for _, m := range v.O {
			out[string(m.Key)] = GenericFromV(m.Val)
		}
		return out
	}
	return nil
}

// Prefill writes sentinel values into the scalar and string fields of a struct
// (and of structs directly nested or inlined in it); everything else stays
// zero. It lets a check see whether unmentioned fields are left untouched.
func Prefill(v reflect.Value) {
	prefill(v, 0)
}

func prefill(v reflect.Value, depth int) {
	if depth > 20 || v.Kind() != reflect.Struct {
		return
	}
	if _, ok := poolAssign[v.Type()]; ok {
		return // custom unfolder: not field-wise
	}
	for i := 0; i < v.NumField(); i++ {
		f := v.Field(i)
		if !f.CanSet() {
			f = reflect.NewAt(f.Type(), f.Addr().UnsafePointer()).Elem()
		}
		switch f.Kind() {
		case reflect.Bool:
			f.SetBool(true)
		case reflect.String:
			f.SetString("SENTINEL")
		case reflect.Int, reflect.Int8, reflect.Int16, reflect.Int32, reflect.Int64:
			f.SetInt(77)
		case reflect.Uint, reflect.Uint8, reflect.Uint16, reflect.Uint32, reflect.Uint64:
			f.SetUint(99)
		case reflect.Float32, reflect.Float64:
			f.SetFloat(7.5)
		case reflect.Struct:
			prefill(f, depth+1)
		}
	}
}
