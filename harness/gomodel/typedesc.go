package gomodel

import (
	"fmt"
	"reflect"
	"strings"
	"unicode"

	"pgregory.net/rapid"
)

// TypeDesc is a serialisable description of a Go type that Build turns into a
// reflect.Type.
type TypeDesc struct {
	Kind   string      `json:"k"`
	Elem   *TypeDesc   `json:"e,omitempty"`
	Len    int         `json:"n,omitempty"`    // array length
	Fields []FieldDesc `json:"f,omitempty"`    // struct
	Pool   string      `json:"pool,omitempty"` // Kind == "pool"
}

type FieldDesc struct {
	Name string   `json:"name"`
	Tag  string   `json:"tag,omitempty"` // complete struct tag, e.g. `struct:"a,omitempty"`
	Type TypeDesc `json:"t"`
}

var scalarTypes = map[string]reflect.Type{
	"bool": reflect.TypeOf(false), "string": reflect.TypeOf(""),
	"int": reflect.TypeOf(int(0)), "int8": reflect.TypeOf(int8(0)), "int16": reflect.TypeOf(int16(0)), "int32": reflect.TypeOf(int32(0)), "int64": reflect.TypeOf(int64(0)),
	"uint": reflect.TypeOf(uint(0)), "uint8": reflect.TypeOf(uint8(0)), "uint16": reflect.TypeOf(uint16(0)), "uint32": reflect.TypeOf(uint32(0)), "uint64": reflect.TypeOf(uint64(0)),
	"float32": reflect.TypeOf(float32(0)), "float64": reflect.TypeOf(float64(0)),
	"uintptr": reflect.TypeOf(uintptr(0)), "complex128": reflect.TypeOf(complex128(0)),
}

var ScalarKinds = []string{"bool", "string", "int", "int8", "int16", "int32", "int64", "uint", "uint8", "uint16", "uint32", "uint64", "float32", "float64"}

var ifaceType = reflect.TypeOf((*interface{})(nil)).Elem()

const pkgPath = "verif/harness/gomodel"

// Build materialises the described type.
func Build(td *TypeDesc) (t reflect.Type, err error) {
	defer func() {
		if r := recover(); r != nil {
			err = fmt.Errorf("harness: cannot build type %s: %v", td, r)
		}
	}()
	return build(td), nil
}

func build(td *TypeDesc) reflect.Type {
	if t, ok := scalarTypes[td.Kind]; ok {
		return t
	}
	switch td.Kind {
	case "iface":
		return ifaceType
	case "slice":
		return reflect.SliceOf(build(td.Elem))
	case "array":
		return reflect.ArrayOf(td.Len, build(td.Elem))
	case "map":
		return reflect.MapOf(scalarTypes["string"], build(td.Elem))
	case "mapint":
		return reflect.MapOf(scalarTypes["int"], build(td.Elem))
	case "mapnstr":
		return reflect.MapOf(reflect.TypeOf(NStr("")), build(td.Elem))
	case "ptr":
		return reflect.PointerTo(build(td.Elem))
	case "chan":
		return reflect.ChanOf(reflect.BothDir, scalarTypes["int"])
	case "func":
		return reflect.FuncOf(nil, nil, false)
	case "pool":
		if p := PoolByName(td.Pool); p != nil {
			return p.Type
		}
		panic("unknown pool type " + td.Pool)
	case "struct":
		fs := make([]reflect.StructField, len(td.Fields))
		for i, f := range td.Fields {
			fs[i] = reflect.StructField{Name: f.Name, Type: build(&td.Fields[i].Type), Tag: reflect.StructTag(f.Tag)}
			if !isExportedName(f.Name) {
				fs[i].PkgPath = pkgPath
			}
		}
		return reflect.StructOf(fs)
	}
	panic("unknown kind " + td.Kind)
}

func isExportedName(n string) bool {
	for _, r := range n {
		return unicode.IsUpper(r)
	}
	return false
}

func (td *TypeDesc) String() string {
	switch td.Kind {
	case "slice":
		return "[]" + td.Elem.String()
	case "array":
		return fmt.Sprintf("[%d]%s", td.Len, td.Elem)
	case "map":
		return "map[string]" + td.Elem.String()
	case "mapint":
		return "map[int]" + td.Elem.String()
	case "mapnstr":
		return "map[NStr]" + td.Elem.String()
	case "ptr":
		return "*" + td.Elem.String()
	case "pool":
		return td.Pool
	case "iface":
		return "interface{}"
	case "struct":
		var b strings.Builder
		b.WriteString("struct{")
		for i, f := range td.Fields {
			if i > 0 {
				b.WriteString("; ")
			}
			fmt.Fprintf(&b, "%s %s", f.Name, &td.Fields[i].Type)
			if f.Tag != "" {
				fmt.Fprintf(&b, " `%s`", f.Tag)
			}
		}
		b.WriteString("}")
		return b.String()
	}
	return td.Kind
}

// TypeCfg steers the type generator.
type TypeCfg struct {
	MaxDepth         int
	Tags             bool // draw struct tags
	Bad              bool // may contain unsupported kinds / illegal tags (refusal cases)
	Pool             bool // may use pool types
	FoldOnly         bool // may use pool types with custom folders
	Recursive        bool // may use the self-referential pool types
	Arrays           bool // may contain Go arrays
	NoInline         bool // no inline/squash tags
	InlineOnlyStruct bool // inline only on direct struct fields (what Unfold supports)
	NoIface          bool
	TopStruct        bool // the top-level type is a struct
	Normalising      bool // may use pool types whose user unfolder post-processes the value (no round trips)
}

var fieldNames = []string{"A", "B", "C", "Name", "ID", "URL", "X1", "Foo_Bar", "Value", "ÄB", "Zz"}
var unexportedNames = []string{"a", "secret", "x"}
var tagNames = []string{"a", "n", "name", "x y", "é", "A", "id", "k-1"}

// DrawType draws a type description.
func DrawType(t *rapid.T, cfg TypeCfg) *TypeDesc {
	if cfg.MaxDepth == 0 {
		cfg.MaxDepth = 4
	}
	g := &typeGen{cfg: cfg, budget: 24}
	var td TypeDesc
	if cfg.TopStruct || rapid.IntRange(0, 2).Draw(t, "topstruct") == 0 {
		// structs are where most of the fold/unfold logic lives
		td = g.structType(t, 0)
	} else {
		td = g.typ(t, 0)
	}
	return &td
}

// components lists the struct, map and slice types a described type is built of.
func components(td *TypeDesc, out *[]*TypeDesc) {
	switch td.Kind {
	case "struct":
		*out = append(*out, td)
		for i := range td.Fields {
			components(&td.Fields[i].Type, out)
		}
	case "ptr", "slice", "map", "array", "mapnstr":
		if td.Kind == "map" {
			*out = append(*out, td)
		}
		components(td.Elem, out)
	case "pool":
		*out = append(*out, td)
	}
}

// DrawRelatedType draws a type for a history of values handled by ONE instance:
// half of the time a type that shares a component with an earlier type of the
// history (the same type again, a wrapper around one of its struct/map
// components, or a sibling struct inlining the same component), because
// per-instance caches are keyed by component types — what an instance compiled
// for one value is what it reuses for the next.
func DrawRelatedType(t *rapid.T, prev []*TypeDesc, cfg TypeCfg) *TypeDesc {
	var comps []*TypeDesc
	for _, p := range prev {
		components(p, &comps)
	}
	if len(comps) == 0 || rapid.Bool().Draw(t, "fresh") {
		return DrawType(t, cfg)
	}
	c := *comps[rapid.IntRange(0, len(comps)-1).Draw(t, "comp")]
	g := &typeGen{cfg: cfg, budget: 6}
	canInline := cfg.Tags && !cfg.NoInline && inlineable(&c, cfg.InlineOnlyStruct)
	field := func() FieldDesc {
		f := FieldDesc{Name: "F", Type: c}
		switch w := rapid.IntRange(0, 5).Draw(t, "relf"); {
		case w < 2 && canInline:
			f.Tag = `struct:",inline"`
		case w < 4 && canInline && !cfg.InlineOnlyStruct && c.Kind != "pool":
			f.Type = TypeDesc{Kind: "ptr", Elem: &c}
			f.Tag = `struct:",inline"`
		case w == 4:
			f.Type = TypeDesc{Kind: "ptr", Elem: &c}
			if cfg.Tags {
				f.Tag = `struct:"f,omitempty"`
			}
		}
		return f
	}
	switch w := rapid.IntRange(0, 9).Draw(t, "rel"); {
	case w == 0:
		return &c
	case w == 1:
		return &TypeDesc{Kind: "ptr", Elem: &c}
	case w == 2:
		return &TypeDesc{Kind: "slice", Elem: &c}
	case w == 3:
		return &TypeDesc{Kind: "map", Elem: &c}
	default:
		// a struct around the component; the optional neighbours make two draws
		// on the same component different struct types
		td := &TypeDesc{Kind: "struct"}
		if rapid.Bool().Draw(t, "relpre") {
			td.Fields = append(td.Fields, FieldDesc{Name: "Pre", Type: g.scalar(t)})
		}
		td.Fields = append(td.Fields, field())
		if rapid.Bool().Draw(t, "relpost") {
			td.Fields = append(td.Fields, FieldDesc{Name: "Post", Type: g.scalar(t)})
		}
		return td
	}
}

type typeGen struct {
	cfg    TypeCfg
	budget int
	HasBad bool
}

func (g *typeGen) scalar(t *rapid.T) TypeDesc {
	return TypeDesc{Kind: rapid.SampledFrom(ScalarKinds).Draw(t, "tk")}
}

func (g *typeGen) typ(t *rapid.T, depth int) TypeDesc {
	g.budget--
	if depth >= g.cfg.MaxDepth || g.budget <= 0 {
		return g.scalar(t)
	}
	w := rapid.IntRange(0, 99).Draw(t, "tw")
	switch {
	case w < 30:
		return g.scalar(t)
	case w < 42:
		e := g.typ(t, depth+1)
		return TypeDesc{Kind: "slice", Elem: &e}
	case w < 52:
		e := g.typ(t, depth+1)
		if g.cfg.Pool && rapid.IntRange(0, 7).Draw(t, "nkey") == 0 {
			// a NAMED string type as key (a refusal candidate on the unfold side:
			// refused with an error or handled correctly, never a crash)
			return TypeDesc{Kind: "mapnstr", Elem: &e}
		}
		return TypeDesc{Kind: "map", Elem: &e}
	case w < 64:
		e := g.typ(t, depth+1)
		return TypeDesc{Kind: "ptr", Elem: &e}
	case w < 72:
		if g.cfg.NoIface {
			return g.scalar(t)
		}
		return TypeDesc{Kind: "iface"}
	case w < 86:
		return g.structType(t, depth)
	case w < 90:
		if g.cfg.Arrays {
			e := g.typ(t, depth+1)
			return TypeDesc{Kind: "array", Len: rapid.IntRange(0, 3).Draw(t, "alen"), Elem: &e}
		}
		return g.scalar(t)
	case w < 98:
		if g.cfg.Pool {
			var names []string
			for _, p := range Pool {
				if (p.FoldOnly && !g.cfg.FoldOnly) || (p.Recursive && !g.cfg.Recursive) || p.Family || (p.Normalises && !g.cfg.Normalising) {
					continue
				}
				names = append(names, p.Name)
				if p.FoldOnly || p.NeedsUnfoldOpts || strings.HasPrefix(p.Name, "Exp") || p.Name == "FRefObj" {
					// types with custom folders / unfolders: where the library's
					// kind-based fast paths and its user hooks meet
					names = append(names, p.Name, p.Name)
				}
			}
			pt := TypeDesc{Kind: "pool", Pool: rapid.SampledFrom(names).Draw(t, "pool")}
			// hand-written types (custom folders, user unfolders, expanders,
			// IsZeroer) are looked up by type in several places — as target, as
			// pointer target, as slice/map element, as pointer element: draw
			// those positions on purpose
			switch rapid.IntRange(0, 11).Draw(t, "poolwrap") {
			case 0:
				return TypeDesc{Kind: "ptr", Elem: &pt}
			case 1:
				return TypeDesc{Kind: "slice", Elem: &pt}
			case 2:
				return TypeDesc{Kind: "map", Elem: &pt}
			case 3:
				return TypeDesc{Kind: "slice", Elem: &TypeDesc{Kind: "ptr", Elem: &pt}}
			case 4:
				return TypeDesc{Kind: "map", Elem: &TypeDesc{Kind: "ptr", Elem: &pt}}
			case 5:
				return TypeDesc{Kind: "ptr", Elem: &TypeDesc{Kind: "ptr", Elem: &pt}}
			}
			return pt
		}
		return g.scalar(t)
	default:
		if g.cfg.Bad {
			g.HasBad = true
			k := rapid.SampledFrom([]string{"chan", "func", "complex128", "mapint", "uintptr"}).Draw(t, "bad")
			if k == "mapint" {
				e := g.scalar(t)
				return TypeDesc{Kind: k, Elem: &e}
			}
			return TypeDesc{Kind: k}
		}
		return g.scalar(t)
	}
}

func (g *typeGen) structType(t *rapid.T, depth int) TypeDesc {
	n := rapid.IntRange(0, 5).Draw(t, "nf")
	td := TypeDesc{Kind: "struct"}
	used := map[string]bool{}
	for i := 0; i < n; i++ {
		var name string
		if rapid.IntRange(0, 7).Draw(t, "unexp") == 7 {
			name = rapid.SampledFrom(unexportedNames).Draw(t, "fnu")
		} else {
			name = rapid.SampledFrom(fieldNames).Draw(t, "fn")
		}
		for used[name] {
			name += fmt.Sprint(i)
		}
		used[name] = true
		f := FieldDesc{Name: name, Type: g.typ(t, depth+1)}
		same := i > 0 && rapid.IntRange(0, 9).Draw(t, "sametype") == 0
		if same {
			// the SAME type as the previous field: a type used as ordinary member
			// and as inlined member side by side
			f.Type = cloneType(td.Fields[i-1].Type)
		}
		if g.cfg.Tags {
			f.Tag = g.tag(t, &f.Type)
			if same && !g.cfg.NoInline && inlineable(&f.Type, g.cfg.InlineOnlyStruct) && rapid.IntRange(0, 2).Draw(t, "samemix") > 0 {
				prevInline := ParseTag(reflect.StructTag(td.Fields[i-1].Tag).Get("struct")).Inline
				if prevInline {
					f.Tag = ""
				} else {
					f.Tag = `struct:",inline"`
				}
			}
		}
		if g.cfg.Tags && rapid.IntRange(0, 9).Draw(t, "optptr") == 0 {
			// optional scalars: pointer (chains) to numbers/bools/structs with
			// omitempty — dropped when nil although the base type is never "empty"
			base := g.scalar(t)
			if rapid.IntRange(0, 4).Draw(t, "optptrs") == 0 {
				base = TypeDesc{Kind: "struct", Fields: []FieldDesc{{Name: "V", Type: TypeDesc{Kind: "int"}}}}
			}
			pt := TypeDesc{Kind: "ptr", Elem: &base}
			if rapid.IntRange(0, 3).Draw(t, "optptr2") == 0 {
				inner := pt
				pt = TypeDesc{Kind: "ptr", Elem: &inner}
			}
			f.Type = pt
			f.Tag = `struct:"` + rapid.SampledFrom([]string{",omitempty", "o,omitempty", ""}).Draw(t, "optptrtag") + `"`
		} else if g.cfg.Tags && !g.cfg.NoIface && rapid.IntRange(0, 11).Draw(t, "omitifc") == 0 {
			// an interface that is dropped when "empty": the emptiness rule is
			// chosen by the dynamic type of every single value
			f.Type = TypeDesc{Kind: "iface"}
			f.Tag = `struct:"` + rapid.SampledFrom([]string{",omitempty", "oi,omitempty"}).Draw(t, "omitifctag") + `"`
		} else if g.cfg.Tags && !g.cfg.NoInline && depth < g.cfg.MaxDepth-1 && rapid.IntRange(0, 11).Draw(t, "nestinl") == 0 {
			// inline inside inline, the inlined struct (usually) not at offset 0:
			// struct{...; F struct{MPi T; I struct{NiX0 T; ...} `inline`; MQi T} `inline`}
			f.Type, f.Tag = g.nestedInline(t, depth, i)
		} else if g.cfg.Pool && g.cfg.Tags && rapid.IntRange(0, 9).Draw(t, "zeroer") == 0 {
			// IsZeroer types (value and pointer receiver, by value and by
			// pointer) are what omitempty consults: make them common
			zt := TypeDesc{Kind: "pool", Pool: rapid.SampledFrom([]string{"ZeroVal", "ZeroPtr", "ZInt", "ZF64", "ZFlag", "ZU8", "ZStr", "ZList"}).Draw(t, "zeroert")}
			if rapid.IntRange(0, 3).Draw(t, "zeroerp") == 0 {
				zt = TypeDesc{Kind: "ptr", Elem: &TypeDesc{Kind: "pool", Pool: zt.Pool}}
			}
			f.Type = zt
			if rapid.IntRange(0, 3).Draw(t, "zeroertag") > 0 {
				f.Tag = `struct:"` + rapid.SampledFrom([]string{",omitempty", "z,omitempty"}).Draw(t, "zeroertagv") + `"`
			}
		}
		if strings.HasPrefix(f.Tag, `struct:"`) && !strings.HasPrefix(f.Tag, `struct:"-`) && rapid.IntRange(0, 7).Draw(t, "tagblank") == 0 {
			// blanks around the name and the options: `struct:"name , inline"`
			// means the same as `struct:"name,inline"`
			f.Tag = blankTag(f.Tag, rapid.IntRange(1, 7).Draw(t, "tagblankw"))
		}
		td.Fields = append(td.Fields, f)
	}
	return td
}

// blankTag puts a blank behind (w&1), in front of (w&2) every comma and at both
// ends (w&4) of the tag value.
func blankTag(tag string, w int) string {
	val := strings.TrimSuffix(strings.TrimPrefix(tag, `struct:"`), `"`)
	parts := strings.Split(val, ",")
	for i := range parts {
		if i > 0 && w&1 != 0 {
			parts[i] = " " + parts[i]
		}
		if i < len(parts)-1 && w&2 != 0 {
			parts[i] += " "
		}
	}
	val = strings.Join(parts, ",")
	if w&4 != 0 {
		val = " " + val + " "
	}
	return `struct:"` + val + `"`
}

func (g *typeGen) nestedInline(t *rapid.T, depth, idx int) (TypeDesc, string) {
	inl := func() string {
		return `struct:"` + rapid.SampledFrom([]string{",inline", ",squash"}).Draw(t, "nitag") + `"`
	}
	plain := func() string {
		return rapid.SampledFrom([]string{"", "", `struct:",omitempty"`}).Draw(t, "nitag2")
	}
	inner := TypeDesc{Kind: "struct"}
	for j, n := 0, rapid.IntRange(1, 3).Draw(t, "nin"); j < n; j++ {
		inner.Fields = append(inner.Fields, FieldDesc{Name: fmt.Sprintf("N%dX%d", idx, j), Type: g.typ(t, depth+2), Tag: plain()})
	}
	mid := TypeDesc{Kind: "struct"}
	if rapid.IntRange(0, 3).Draw(t, "nipre") > 0 {
		mid.Fields = append(mid.Fields, FieldDesc{Name: fmt.Sprintf("MP%d", idx), Type: g.scalar(t), Tag: plain()})
	}
	it := inner
	if !g.cfg.InlineOnlyStruct {
		// pointer chains of depth 0..3 (a nil pointer at ANY level contributes no members)
		for k := rapid.SampledFrom([]int{0, 0, 1, 2, 3}).Draw(t, "niptr"); k > 0; k-- {
			e := it
			it = TypeDesc{Kind: "ptr", Elem: &e}
		}
	}
	mid.Fields = append(mid.Fields, FieldDesc{Name: "I", Type: it, Tag: inl()})
	if rapid.Bool().Draw(t, "nipost") {
		mid.Fields = append(mid.Fields, FieldDesc{Name: fmt.Sprintf("MQ%d", idx), Type: g.scalar(t), Tag: plain()})
	}
	mt := mid
	if !g.cfg.InlineOnlyStruct {
		for k := rapid.SampledFrom([]int{0, 0, 1, 2}).Draw(t, "niptr2"); k > 0; k-- {
			e := mt
			mt = TypeDesc{Kind: "ptr", Elem: &e}
		}
	}
	return mt, inl()
}

// cloneType deep-copies a type description (descriptions are edited in place
// by uniqueMemberNames).
func cloneType(td TypeDesc) TypeDesc {
	out := td
	if td.Elem != nil {
		e := cloneType(*td.Elem)
		out.Elem = &e
	}
	if td.Fields != nil {
		out.Fields = make([]FieldDesc, len(td.Fields))
		for i, f := range td.Fields {
			out.Fields[i] = FieldDesc{Name: f.Name, Tag: f.Tag, Type: cloneType(f.Type)}
		}
	}
	return out
}

func inlineable(td *TypeDesc, onlyStruct bool) bool {
	switch td.Kind {
	case "struct":
		return true
	case "map", "iface":
		return !onlyStruct
	case "ptr":
		return !onlyStruct && inlineable(td.Elem, onlyStruct) && td.Elem.Kind != "iface"
	case "pool":
		if td.Pool == "FRefObj" {
			return true // a plain struct for the unfolder, a folder for Fold
		}
		return !onlyStruct && (td.Pool == "FolderObj" || td.Pool == "FolderPtr" || td.Pool == "NMapInt" || td.Pool == "NMapAny" || td.Pool == "WithEmb" || td.Pool == "FCounts" || td.Pool == "FDeleg")
	}
	return false
}

func (g *typeGen) tag(t *rapid.T, ft *TypeDesc) string {
	w := rapid.IntRange(0, 19).Draw(t, "tagw")
	name := func() string { return rapid.SampledFrom(tagNames).Draw(t, "tagn") }
	wrap := func(s string) string {
		if rapid.IntRange(0, 5).Draw(t, "tagother") == 5 {
			return `json:"other" struct:"` + s + `"`
		}
		return `struct:"` + s + `"`
	}
	if !g.cfg.NoInline && inlineable(ft, g.cfg.InlineOnlyStruct) && rapid.IntRange(0, 2).Draw(t, "taginlw") == 0 {
		return wrap(rapid.SampledFrom([]string{",inline", ",squash", "ignored,inline"}).Draw(t, "taginl"))
	}
	switch {
	case w < 6:
		return ""
	case w < 9:
		return wrap(name())
	case w < 12:
		return wrap(name() + ",omitempty")
	case w < 14:
		return wrap(",omitempty")
	case w == 14:
		return wrap("-")
	case w == 15:
		return wrap(",omit")
	case w == 16:
		return wrap(" " + name() + " , omitempty ")
	case w == 17:
		if g.cfg.Bad && rapid.IntRange(0, 3).Draw(t, "tagbad") == 3 {
			g.HasBad = true
			return wrap(rapid.SampledFrom([]string{",inline,omitempty", ",squash,omitempty", ",inline"}).Draw(t, "tagbadv"))
		}
		return wrap("-,omitempty")
	default:
		if !g.cfg.NoInline && inlineable(ft, g.cfg.InlineOnlyStruct) {
			return wrap(rapid.SampledFrom([]string{",inline", ",squash", "ignored,inline"}).Draw(t, "taginl"))
		}
		return wrap(name())
	}
}
