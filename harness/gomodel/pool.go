// Package gomodel generates Go types and values at run time (reflect.StructOf
// etc.), holds the pool of hand-written named types reflect cannot build, and
// implements independent executable models of the documented fold rules and of
// unfold assignment (DESIGN.md §3.6, C11–C13).
package gomodel

import (
	"reflect"
	"sort"
	"strconv"
	"strings"

	structform "github.com/elastic/go-structform"
	"github.com/elastic/go-structform/gotype"
)

// ---- named scalars, slices, maps ----

type NInt int
type NInt8 int8
type NUint16 uint16
type NStr string
type NF64 float64
type NF32 float32
type NBool bool
type NSliceInt []int
type NSliceStr []string
type NSliceAny []interface{}
type NMapInt map[string]int
type NMapAny map[string]interface{}
type NBytes []byte
type NUint uint
type NUint8 uint8
type NUint32 uint32
type NUint64 uint64
type NInt16 int16
type NInt32 int32
type NInt64 int64
type NArr3 [3]int
type NArrStr [2]NStr
type NSliceN []NInt
type NMapN map[string]NStr

// ---- IsZeroer ----

// ZeroVal implements IsZero with a value receiver.
type ZeroVal struct{ V int }

func (z ZeroVal) IsZero() bool { return z.V == 0 }

// ZeroPtr implements IsZero with a pointer receiver.
type ZeroPtr struct{ V int }

func (z *ZeroPtr) IsZero() bool { return z.V == 0 }

// Named primitive types with an IsZero that is NOT "is the Go zero value": omitempty
// has to ask the method, whatever the kind and however the value is reached.
type ZInt int

func (z ZInt) IsZero() bool { return z <= 0 }

type ZF64 float64

func (z ZF64) IsZero() bool { return !(z > 0) }

// ZFlag and ZU8 implement IsZero with a pointer receiver.
type ZFlag bool

func (z *ZFlag) IsZero() bool { return !bool(*z) }

type ZU8 uint8

func (z *ZU8) IsZero() bool { return *z%2 == 0 }

// ZStr and ZList are a named string and a named slice with an IsZero that is not
// "has length zero": omitempty has to consult the method for them too (a
// non-empty value whose IsZero() is true is empty), besides the length.
type ZStr string

func (z ZStr) IsZero() bool { return len(z)%2 == 1 }

type ZList []string

func (z *ZList) IsZero() bool { return len(*z) >= 2 && (*z)[0] == (*z)[1] }

// ---- Folder (fold side only: output defined by the type) ----

// FolderObj emits an object {"fa": A, "fb": B} (value receiver).
type FolderObj struct {
	A int
	B string
}

func (f FolderObj) Fold(v structform.ExtVisitor) error {
	if err := v.OnObjectStart(2, structform.AnyType); err != nil {
		return err
	}
	if err := v.OnKey("fa"); err != nil {
		return err
	}
	if err := v.OnInt(f.A); err != nil {
		return err
	}
	if err := v.OnKey("fb"); err != nil {
		return err
	}
	if err := v.OnString(f.B); err != nil {
		return err
	}
	return v.OnObjectFinished()
}

// FolderPtr emits an object {"pa": A} (pointer receiver).
type FolderPtr struct{ A int }

func (f *FolderPtr) Fold(v structform.ExtVisitor) error {
	if f == nil {
		return v.OnNil()
	}
	if err := v.OnObjectStart(1, structform.AnyType); err != nil {
		return err
	}
	if err := v.OnKey("pa"); err != nil {
		return err
	}
	if err := v.OnInt(f.A); err != nil {
		return err
	}
	return v.OnObjectFinished()
}

// FolderScalar emits a single integer.
type FolderScalar struct{ X int }

func (f FolderScalar) Fold(v structform.ExtVisitor) error { return v.OnInt64(int64(f.X) * 2) }

// FTags is a named slice of a builtin element type that implements Folder
// (value receiver): emits one string. The library has a fast path that converts
// named slices/maps of builtin elements to their unnamed type; an implemented
// folder must win over it wherever the value sits.
type FTags []string

func (f FTags) Fold(v structform.ExtVisitor) error { return v.OnString("tags:" + strings.Join(f, ",")) }

// FCounts is a named map[string]int that implements Folder: emits
// {"n": len, "sum": sum of values}.
type FCounts map[string]int

func (f FCounts) Fold(v structform.ExtVisitor) error {
	var sum int64
	for _, x := range f {
		sum += int64(x)
	}
	if err := v.OnObjectStart(2, structform.AnyType); err != nil {
		return err
	}
	if err := v.OnKey("n"); err != nil {
		return err
	}
	if err := v.OnInt(len(f)); err != nil {
		return err
	}
	if err := v.OnKey("sum"); err != nil {
		return err
	}
	if err := v.OnInt64(sum); err != nil {
		return err
	}
	return v.OnObjectFinished()
}

// FAnyMap is a named map[string]interface{} that implements Folder: emits the
// sorted keys as an array of strings.
type FAnyMap map[string]interface{}

func (f FAnyMap) Fold(v structform.ExtVisitor) error {
	keys := make([]string, 0, len(f))
	for k := range f {
		keys = append(keys, k)
	}
	sort.Strings(keys)
	if err := v.OnArrayStart(len(keys), structform.StringType); err != nil {
		return err
	}
	for _, k := range keys {
		if err := v.OnString(k); err != nil {
			return err
		}
	}
	return v.OnArrayFinished()
}

// FAnyList is a named []interface{} that implements Folder: emits its length.
type FAnyList []interface{}

func (f FAnyList) Fold(v structform.ExtVisitor) error { return v.OnInt(len(f)) }

// FLevel is a named int that implements Folder (value receiver) and emits a
// STRING: the kind of the type says nothing about the events of its folder.
type FLevel int

func (l FLevel) Fold(v structform.ExtVisitor) error {
	return v.OnString("level-" + strconv.Itoa(int(l)))
}

// FFlag is a named bool that implements Folder with a pointer receiver and
// emits an integer.
type FFlag bool

func (f *FFlag) Fold(v structform.ExtVisitor) error {
	if f == nil {
		return v.OnNil()
	}
	if *f {
		return v.OnInt(1)
	}
	return v.OnInt(0)
}

// RDur is a named int64 folded by a registered folder function that emits a string.
type RDur int64

// FoldRDur is the registered folder of RDur.
func FoldRDur(d *RDur, v structform.ExtVisitor) error {
	if d == nil {
		return v.OnNil()
	}
	return v.OnString(strconv.FormatInt(int64(*d), 10) + "ns")
}

// FDeleg implements Folder by DELEGATING to the library: its Fold method calls
// gotype.Fold on a struct that inlines an interface (the map). Folding is
// re-entered from inside a folder, as applications wrapping values do.
type FDeleg struct {
	A int
	M map[string]interface{}
}

type fDelegInner struct {
	A int
	I interface{} `struct:",inline"`
}

func (f FDeleg) Fold(v structform.ExtVisitor) error {
	in := fDelegInner{A: f.A}
	if f.M != nil {
		in.I = f.M
	}
	return gotype.Fold(in, v, SharedFoldOpt)
}

// SharedFoldOpt is the ONE Folders(...) option value of the process (registered
// folders of RegT and RDur), as an application keeps it in a package variable.
var SharedFoldOpt = gotype.Folders(FoldRegT, FoldRDur, FoldRegPS)

// FRefObj implements Folder and reports its key and value BY REFERENCE from one
// scratch buffer that it overwrites after every call (a folder that formats into
// a reused buffer). It is a plain struct for the unfolder ({"rk": K}), so it
// round-trips, also as an inlined field (where the library puts its
// object-expecting visitor between the folder and the target).
type FRefObj struct {
	K string `struct:"rk"`
}

func (f FRefObj) Fold(v structform.ExtVisitor) error {
	scratch := make([]byte, 0, 64)
	scribble := func() {
		for i := range scratch {
			scratch[i] = '#'
		}
	}
	if err := v.OnObjectStart(1, structform.AnyType); err != nil {
		return err
	}
	scratch = append(scratch[:0], "rk"...)
	err := v.OnKeyRef(scratch)
	scribble()
	if err != nil {
		return err
	}
	scratch = append(scratch[:0], f.K...)
	err = v.OnStringRef(scratch)
	scribble()
	if err != nil {
		return err
	}
	return v.OnObjectFinished()
}

// RegPS is "pointer-shaped" (a struct holding exactly one pointer: reflect and
// interfaces keep such a value in the data word itself) and is folded by a
// registered folder function: emits {"ps": *P} ({"ps": null} for a nil P).
type RegPS struct{ P *int }

// FoldRegPS is the registered folder of RegPS.
func FoldRegPS(t *RegPS, v structform.ExtVisitor) error {
	if t == nil {
		return v.OnNil()
	}
	if err := v.OnObjectStart(1, structform.AnyType); err != nil {
		return err
	}
	if err := v.OnKey("ps"); err != nil {
		return err
	}
	if t.P == nil {
		if err := v.OnNil(); err != nil {
			return err
		}
	} else if err := v.OnInt(*t.P); err != nil {
		return err
	}
	return v.OnObjectFinished()
}

// RegT is folded by a registered folder function (Folders option).
type RegT struct{ X int }

// FoldRegT is the registered folder of RegT: emits the string "reg:<X>"-ish
// object {"rx": X}.
func FoldRegT(t *RegT, v structform.ExtVisitor) error {
	if t == nil {
		// registered folders are handed nil pointers as they are
		return v.OnNil()
	}
	if err := v.OnObjectStart(1, structform.AnyType); err != nil {
		return err
	}
	if err := v.OnKey("rx"); err != nil {
		return err
	}
	if err := v.OnInt(t.X); err != nil {
		return err
	}
	return v.OnObjectFinished()
}

// ---- embedded struct ----

type Emb struct {
	X int
	S string `struct:"es"`
}

type WithEmb struct {
	Emb
	Y int
}

// ---- self-referential types ----

type N struct {
	V    int
	Next *N
}

type Tree struct {
	V    int
	Kids []Tree
}

type M map[string]M

// LList and Forest contain themselves without passing through a struct.
type LList []LList
type Forest map[string][]Forest

// MNode recurses BY VALUE through a map element and has a member after the map.
type MNode struct {
	Kids map[string]MNode
	Name string
}

// LNode recurses through a map of slices and has members before and after.
type LNode struct {
	A int
	L map[string][]LNode
	Z string
}

// PoolType describes one hand-written type usable as a leaf of generated types.
type PoolType struct {
	Name      string
	Type      reflect.Type
	FoldOnly  bool // has a custom folder: excluded from round trips
	Recursive bool
	Family    bool // member of the Rec2 family: only used where a fresh recursive type is wanted
	// NeedsUnfoldOpts: the type is unfolded by a user unfolder registered through UnfoldOptions
	NeedsUnfoldOpts bool
	// Normalises: the user unfolder post-processes the value (fold then unfold
	// does not reproduce every value): only used where TypeCfg.Normalising is set
	Normalises bool
}

var Pool = []PoolType{
	{Name: "NInt", Type: reflect.TypeOf(NInt(0))},
	{Name: "NInt8", Type: reflect.TypeOf(NInt8(0))},
	{Name: "NUint16", Type: reflect.TypeOf(NUint16(0))},
	{Name: "NStr", Type: reflect.TypeOf(NStr(""))},
	{Name: "NF64", Type: reflect.TypeOf(NF64(0))},
	{Name: "NF32", Type: reflect.TypeOf(NF32(0))},
	{Name: "NBool", Type: reflect.TypeOf(NBool(false))},
	{Name: "NSliceInt", Type: reflect.TypeOf(NSliceInt(nil))},
	{Name: "NSliceStr", Type: reflect.TypeOf(NSliceStr(nil))},
	{Name: "NSliceAny", Type: reflect.TypeOf(NSliceAny(nil))},
	{Name: "NMapInt", Type: reflect.TypeOf(NMapInt(nil))},
	{Name: "NMapAny", Type: reflect.TypeOf(NMapAny(nil))},
	{Name: "NBytes", Type: reflect.TypeOf(NBytes(nil))},
	{Name: "NUint", Type: reflect.TypeOf(NUint(0))},
	{Name: "NUint8", Type: reflect.TypeOf(NUint8(0))},
	{Name: "NUint32", Type: reflect.TypeOf(NUint32(0))},
	{Name: "NUint64", Type: reflect.TypeOf(NUint64(0))},
	{Name: "NInt16", Type: reflect.TypeOf(NInt16(0))},
	{Name: "NInt32", Type: reflect.TypeOf(NInt32(0))},
	{Name: "NInt64", Type: reflect.TypeOf(NInt64(0))},
	{Name: "NSliceN", Type: reflect.TypeOf(NSliceN(nil))},
	{Name: "NMapN", Type: reflect.TypeOf(NMapN(nil))},
	{Name: "NArr3", Type: reflect.TypeOf(NArr3{}), FoldOnly: true},
	{Name: "NArrStr", Type: reflect.TypeOf(NArrStr{}), FoldOnly: true},
	{Name: "ZeroVal", Type: reflect.TypeOf(ZeroVal{})},
	{Name: "ZeroPtr", Type: reflect.TypeOf(ZeroPtr{})},
	{Name: "ZInt", Type: reflect.TypeOf(ZInt(0))},
	{Name: "ZF64", Type: reflect.TypeOf(ZF64(0))},
	{Name: "ZFlag", Type: reflect.TypeOf(ZFlag(false))},
	{Name: "ZU8", Type: reflect.TypeOf(ZU8(0))},
	{Name: "ZStr", Type: reflect.TypeOf(ZStr(""))},
	{Name: "ZList", Type: reflect.TypeOf(ZList(nil))},
	{Name: "WithEmb", Type: reflect.TypeOf(WithEmb{})},
	{Name: "FRefObj", Type: reflect.TypeOf(FRefObj{})},
	{Name: "FolderObj", Type: reflect.TypeOf(FolderObj{}), FoldOnly: true},
	{Name: "FolderPtr", Type: reflect.TypeOf(FolderPtr{}), FoldOnly: true},
	{Name: "FolderScalar", Type: reflect.TypeOf(FolderScalar{}), FoldOnly: true},
	{Name: "RegT", Type: reflect.TypeOf(RegT{}), FoldOnly: true},
	{Name: "RegPS", Type: reflect.TypeOf(RegPS{}), FoldOnly: true},
	{Name: "FLevel", Type: reflect.TypeOf(FLevel(0)), FoldOnly: true},
	{Name: "FFlag", Type: reflect.TypeOf(FFlag(false)), FoldOnly: true},
	{Name: "RDur", Type: reflect.TypeOf(RDur(0)), FoldOnly: true},
	{Name: "FDeleg", Type: reflect.TypeOf(FDeleg{}), FoldOnly: true},
	{Name: "FTags", Type: reflect.TypeOf(FTags(nil)), FoldOnly: true},
	{Name: "FCounts", Type: reflect.TypeOf(FCounts(nil)), FoldOnly: true},
	{Name: "FAnyMap", Type: reflect.TypeOf(FAnyMap(nil)), FoldOnly: true},
	{Name: "FAnyList", Type: reflect.TypeOf(FAnyList(nil)), FoldOnly: true},
	{Name: "N", Type: reflect.TypeOf(N{}), Recursive: true},
	{Name: "Tree", Type: reflect.TypeOf(Tree{}), Recursive: true},
	{Name: "M", Type: reflect.TypeOf(M(nil)), Recursive: true},
	{Name: "LList", Type: reflect.TypeOf(LList(nil)), Recursive: true},
	{Name: "Forest", Type: reflect.TypeOf(Forest(nil)), Recursive: true},
	{Name: "MNode", Type: reflect.TypeOf(MNode{}), Recursive: true},
	{Name: "LNode", Type: reflect.TypeOf(LNode{}), Recursive: true},
}

func PoolByName(name string) *PoolType {
	for i := range Pool {
		if Pool[i].Name == name {
			return &Pool[i]
		}
	}
	return nil
}
